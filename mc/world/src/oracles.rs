//! Generic oracles shared by the world checks.
use crate::base::{CommitInfo, SigEv};
use crate::model::{expected_tx, ChanParams, ChanType, Item, Upd, WireModel, INITIAL_COMMITMENT_NUMBER};
use crate::sys::Oracle;
use crate::world::{Obs, Wire, World};
use lightning::events::{ClosureReason, Event};
use lightning::ln::types::ChannelId;
use mc_common::explore::Failure;
use std::collections::BTreeMap;

/// Channel parameters derived from the open/accept messages observed during set-up.
#[derive(Clone, Debug)]
pub struct ChanInfo {
	pub cid: ChannelId,
	/// node indices; nodes[0] < nodes[1]; side i of the model = nodes[i]
	pub nodes: [usize; 2],
	pub params: ChanParams,
	pub reserve_sat: [u64; 2],
	pub htlc_minimum_msat: [u64; 2],
	pub funding: Option<(bitcoin::Txid, u16)>,
}

pub fn chan_infos(w: &World, chans: &[ChannelId]) -> Vec<ChanInfo> {
	let mut opens = Vec::new();
	let mut accepts = Vec::new();
	for o in w.obs.iter() {
		match o {
			Obs::Delivered { from, to, wire: Wire::Open(m) } => opens.push((*from, *to, m.clone())),
			Obs::Delivered { from, to, wire: Wire::Accept(m) } => accepts.push((*from, *to, m.clone())),
			_ => {},
		}
	}
	assert_eq!(opens.len(), chans.len());
	assert_eq!(accepts.len(), chans.len());
	let mut out = Vec::new();
	for (i, cid) in chans.iter().enumerate() {
		let (opener, acceptor, open) = &opens[i];
		let (_, _, accept) = &accepts[i];
		let nodes = [*opener.min(acceptor), *opener.max(acceptor)];
		let side_of = |n: usize| if n == nodes[0] { 0 } else { 1 };
		let ct = accept.common_fields.channel_type.clone().expect("channel_type");
		let chan_type = if ct.supports_anchor_zero_fee_commitments() {
			ChanType::ZeroFeeCommitments
		} else if ct.supports_anchors_zero_fee_htlc_tx() {
			ChanType::AnchorsZeroFeeHtlc
		} else {
			ChanType::StaticRemoteKey
		};
		let mut dust = [0u64; 2];
		dust[side_of(*opener)] = open.common_fields.dust_limit_satoshis;
		dust[side_of(*acceptor)] = accept.common_fields.dust_limit_satoshis;
		let mut reserve = [0u64; 2];
		// open.channel_reserve_satoshis is the reserve the *acceptor* must keep, and vice versa
		reserve[side_of(*acceptor)] = open.channel_reserve_satoshis;
		reserve[side_of(*opener)] = accept.channel_reserve_satoshis;
		let mut hmin = [0u64; 2];
		// htlc_minimum_msat announced by X = minimum X accepts *inbound*
		hmin[side_of(*opener)] = open.common_fields.htlc_minimum_msat;
		hmin[side_of(*acceptor)] = accept.common_fields.htlc_minimum_msat;
		out.push(ChanInfo {
			cid: *cid,
			nodes,
			params: ChanParams {
				funder: side_of(*opener),
				value_sat: open.common_fields.funding_satoshis,
				push_msat: open.push_msat,
				dust_limit_sat: dust,
				chan_type,
				initial_feerate: open.common_fields.commitment_feerate_sat_per_1000_weight,
			},
			reserve_sat: reserve,
			htlc_minimum_msat: hmin,
			funding: w.chan(*opener, cid).and_then(|c| c.funding_txo).map(|o| (o.txid, o.index)),
		});
	}
	out
}

// -------------------------------------------------------------------------------------------------
/// Honest operation never ends in a protocol error, warning, disconnect request or force-closure.
#[derive(Default)]
pub struct NoErrorOracle {
	/// closure by a *requested* cooperative shutdown is fine
	pub allow_coop: bool,
	pub allow_force_by_user: bool,
	/// a channel that is not funded yet is dropped when its peer disconnects
	pub allow_unfunded_drop: bool,
	/// nodes that have broadcast a cooperative closing transaction, and whether their connection dropped afterwards
	pub coop_broadcast: std::collections::BTreeSet<usize>,
	pub dropped_after_coop: std::collections::BTreeSet<usize>,
	/// nodes that dropped a not-yet-funded channel because the peer disconnected
	pub dropped_unfunded: std::collections::BTreeSet<usize>,
	/// a funding transaction has been broadcast (from then on a channel is real)
	pub funding_broadcast: bool,
}

impl Oracle for NoErrorOracle {
	fn name(&self) -> &'static str {
		"no-protocol-error"
	}
	fn observe(&mut self, _w: &World, obs: &[Obs]) -> Result<(), Failure> {
		for o in obs {
			match o {
				Obs::Broadcast { b, .. } if b.kinds.iter().any(|k| k == "Funding") => {
					self.funding_broadcast = true;
				},
				Obs::Disconnected { a, b } if self.allow_unfunded_drop && !self.funding_broadcast => {
					// both ends forget (or will be made to forget) a channel whose funding was never broadcast
					self.dropped_unfunded.insert(*a);
					self.dropped_unfunded.insert(*b);
				},
				Obs::Broadcast { node, b, .. } if b.kinds.iter().any(|k| k == "CooperativeClose") => {
					self.coop_broadcast.insert(*node);
				},
				Obs::Disconnected { a, b } => {
					for n in [*a, *b] {
						if self.coop_broadcast.contains(&n) {
							self.dropped_after_coop.insert(n);
						}
					}
				},
				Obs::Sent { from, wire: Wire::Error(m), .. }
					if self.allow_unfunded_drop
						&& !self.dropped_unfunded.is_empty()
						&& !self.funding_broadcast
						&& (m.data.contains("No such channel_id") || m.data.contains("invalid channel_reestablish")) =>
				{
					// the peer still believes in a channel this node dropped before it was funded; it answers
					// the bogus channel_reestablish it gets back with an error of its own
				},
				Obs::Sent { from, to, wire: Wire::Error(m) } => {
					if !self.allow_force_by_user {
						if self.dropped_after_coop.contains(from) && m.data.contains("No such channel_id") {
							// the legacy closing_signed exchange is not atomic: the node that completed it has
							// forgotten the channel, its peer never got the final closing_signed
							return Err(Failure::new(
								"no-protocol-error",
								format!("fields=[error-after-own-cooperative-close-whose-final-closing_signed-was-lost]: node {} completed the cooperative close and broadcast the closing transaction, the connection dropped before its final closing_signed reached node {}, and on reconnection it answers the peer's channel_reestablish with an error: {}", from, to, m.data),
							));
						}
						return Err(Failure::new("no-protocol-error", format!("node {} sent error to {}: {}", from, to, m.data)));
					}
				},
				Obs::Sent { from, to, wire: Wire::Warning(m) } => {
					return Err(Failure::new("no-protocol-error", format!("node {} sent warning to {}: {}", from, to, m.data)));
				},
				Obs::Sent { from, to, wire: Wire::DisconnectMarker } => {
					return Err(Failure::new("no-protocol-error", format!("node {} asked to disconnect {}", from, to)));
				},
				Obs::Event { node, ev: Event::ChannelClosed { reason, .. } } => {
					if matches!(reason, ClosureReason::DisconnectedPeer) && self.allow_unfunded_drop {
						self.dropped_unfunded.insert(*node);
					}
					let ok = match reason {
						ClosureReason::LegacyCooperativeClosure
						| ClosureReason::CounterpartyInitiatedCooperativeClosure
						| ClosureReason::LocallyInitiatedCooperativeClosure => self.allow_coop,
						ClosureReason::HolderForceClosed { .. } => self.allow_force_by_user,
						ClosureReason::CounterpartyForceClosed { .. } => self.allow_force_by_user || (self.allow_unfunded_drop && !self.dropped_unfunded.is_empty()),
						ClosureReason::CommitmentTxConfirmed => self.allow_force_by_user,
						ClosureReason::DisconnectedPeer => self.allow_unfunded_drop,
						ClosureReason::ProcessingError { err } => self.allow_unfunded_drop && !self.dropped_unfunded.is_empty() && err.contains("invalid channel_reestablish"),
						_ => false,
					};
					if !ok {
						return Err(Failure::new("no-protocol-error", format!("node {} closed channel: {:?}", node, reason)));
					}
				},
				Obs::ErrorAction { from, what, .. } if what.starts_with("unrouted") => {
					return Err(Failure::new("harness", format!("node {}: {}", from, what)));
				},
				_ => {},
			}
		}
		Ok(())
	}
}

// -------------------------------------------------------------------------------------------------
/// C01 core: every commitment a node accepts equals what the BOLT-2 wire model + BOLT-3 arithmetic
/// say it must be; every commitment a node signs is structurally sound and spends the funding
/// output; the signer's and the acceptor's transaction for the same number are identical.
pub struct CommitmentOracle {
	pub chans: Vec<ChanInfo>,
	pub models: Vec<WireModel>,
	/// per (chan, owner side): expected commitments not yet matched with an accepted holder commitment
	pending: BTreeMap<(usize, usize), Vec<crate::model::ModelCommitment>>,
	/// txid of the latest counterparty commitment signed per (chan, signer side, number)
	signed: BTreeMap<(usize, usize, u64), bitcoin::Txid>,
	pub checked: u64,
	pub max_pending_htlcs: usize,
	pub saw_trimmed: bool,
	pub saw_both_directions_pending: bool,
	pub closed: Vec<bool>,
	/// commitments already matched (replays of in-flight updates after a restart are legitimate)
	matched: BTreeMap<(usize, usize, u64), bitcoin::Txid>,
}

impl CommitmentOracle {
	pub fn new(chans: Vec<ChanInfo>) -> Self {
		let models = chans.iter().map(|c| WireModel::new(c.params.clone())).collect();
		let closed = vec![false; chans.len()];
		CommitmentOracle {
			chans,
			models,
			pending: BTreeMap::new(),
			signed: BTreeMap::new(),
			checked: 0,
			max_pending_htlcs: 0,
			saw_trimmed: false,
			saw_both_directions_pending: false,
			closed,
			matched: BTreeMap::new(),
		}
	}
	fn chan_idx(&self, cid: &ChannelId) -> Option<usize> {
		self.chans.iter().position(|c| c.cid == *cid)
	}
	fn side(&self, ci: usize, node: usize) -> Option<usize> {
		self.chans[ci].nodes.iter().position(|n| *n == node)
	}

	fn structural(&self, ci: usize, info: &CommitInfo, who: &str) -> Result<(), Failure> {
		let p = &self.chans[ci].params;
		let f = |d: String| Failure::new("commitment-conservation", format!("{} commitment {}: {}", who, INITIAL_COMMITMENT_NUMBER - info.number, d));
		if info.tx.input.len() != 1 {
			return Err(f(format!("{} inputs", info.tx.input.len())));
		}
		if let Some((txid, idx)) = info.funding_outpoint {
			let op = info.tx.input[0].previous_output;
			if op.txid != txid || op.vout != idx as u32 {
				return Err(f("does not spend the funding outpoint".into()));
			}
		}
		let sum: u64 = info.tx.output.iter().map(|o| o.value.to_sat()).sum();
		if sum > p.value_sat {
			return Err(f(format!("outputs {} exceed channel value {}", sum, p.value_sat)));
		}
		let base_fee = info.feerate_per_kw as u64 * crate::model::commit_weight(p.chan_type, info.htlcs.len()) / 1000;
		if p.chan_type != ChanType::ZeroFeeCommitments && p.value_sat - sum < base_fee {
			return Err(f(format!("implied fee {} below BOLT-3 fee {}", p.value_sat - sum, base_fee)));
		}
		Ok(())
	}

	fn compare(&mut self, ci: usize, owner: usize, exp: &crate::model::ModelCommitment, got: &CommitInfo) -> Result<(), Failure> {
		let p = self.chans[ci].params.clone();
		let fail = |d: String| {
			Failure::new(
				"commitment-agreement",
				format!("chan {} side {} commitment #{}: {}", ci, owner, INITIAL_COMMITMENT_NUMBER - got.number, d),
			)
		};
		if exp.number != got.number {
			return Err(fail(format!("number: model {} code {}", exp.number, got.number)));
		}
		if p.chan_type == ChanType::ZeroFeeCommitments {
			// only conservation for this type (no merged BOLT-3 text to transcribe)
			let sum: u64 = got.tx.output.iter().map(|o| o.value.to_sat()).sum();
			if sum > p.value_sat {
				return Err(fail("outputs exceed channel value".into()));
			}
		} else {
			if exp.feerate != got.feerate_per_kw {
				return Err(fail(format!("feerate: model {} code {}", exp.feerate, got.feerate_per_kw)));
			}
			let e = expected_tx(&p, exp).map_err(|s| fail(format!("model cannot build: {}", s)))?;
			let mut outs: Vec<u64> = got.tx.output.iter().map(|o| o.value.to_sat()).collect();
			outs.sort();
			if outs != e.outputs {
				return Err(fail(format!(
					"outputs differ: model {:?} (balances {:?} msat, htlcs {:?}, fee {}) code {:?}",
					e.outputs,
					exp.balance_msat,
					exp.htlcs.iter().map(|h| (h.offerer, h.amount_msat)).collect::<Vec<_>>(),
					e.fee_sat,
					outs
				)));
			}
			let mut got_h: Vec<(bool, u64, [u8; 32])> = got.htlcs.iter().map(|h| (h.0, h.1, h.3)).collect();
			got_h.sort();
			if got_h != e.untrimmed {
				return Err(fail(format!("untrimmed HTLC set differs: model {:?} code {:?}", e.untrimmed.len(), got_h.len())));
			}
			let total: u64 = outs.iter().sum::<u64>() + e.fee_sat;
			let dust_and_rounding = p.value_sat - total;
			// everything not in an output or the BOLT-3 fee is trimmed HTLC value, trimmed balances or msat rounding
			let max_slack = (e.trimmed_sum_msat + 999) / 1000
				+ if e.to_local_sat < p.dust_limit_sat[owner] { e.to_local_sat } else { 0 }
				+ if e.to_remote_sat < p.dust_limit_sat[owner] { e.to_remote_sat } else { 0 }
				+ exp.htlcs.len() as u64 + 2 + 660;
			if dust_and_rounding > max_slack {
				return Err(fail(format!("{} sat unaccounted (max slack {})", dust_and_rounding, max_slack)));
			}
			if e.trimmed_sum_msat > 0 {
				self.saw_trimmed = true;
				crate::runner::witness("commitment-with-trimmed-htlc");
			}
			if e.untrimmed.iter().any(|u| u.0) && e.untrimmed.iter().any(|u| !u.0) {
				crate::runner::witness("commitment-with-untrimmed-htlcs-both-directions");
			}
			if exp.feerate != p.initial_feerate {
				crate::runner::witness("commitment-after-fee-update");
			}
		}
		self.max_pending_htlcs = self.max_pending_htlcs.max(exp.htlcs.len());
		if exp.htlcs.iter().any(|h| h.offerer == 0) && exp.htlcs.iter().any(|h| h.offerer == 1) {
			self.saw_both_directions_pending = true;
		}
		self.checked += 1;
		Ok(())
	}
}

fn hash_of(h: &lightning::types::payment::PaymentHash) -> [u8; 32] {
	h.0
}

impl Oracle for CommitmentOracle {
	fn name(&self) -> &'static str {
		"commitment"
	}
	fn observe(&mut self, _w: &World, obs: &[Obs]) -> Result<(), Failure> {
		for o in obs {
			match o {
				Obs::Delivered { to, wire, .. } => {
					let cid = match wire.channel_id() {
						Some(c) => c,
						None => continue,
					};
					let ci = match self.chan_idx(&cid) {
						Some(c) => c,
						None => continue,
					};
					let side = match self.side(ci, *to) {
						Some(s) => s,
						None => continue,
					};
					let item = match wire {
						Wire::Add(m) => Item::Upd(Upd::Add {
							id: m.htlc_id,
							amount_msat: m.amount_msat,
							hash: hash_of(&m.payment_hash),
							cltv: m.cltv_expiry,
						}),
						Wire::Fulfill(m) => Item::Upd(Upd::Fulfill { id: m.htlc_id }),
						Wire::Fail(m) => Item::Upd(Upd::Fail { id: m.htlc_id }),
						Wire::FailMalformed(m) => Item::Upd(Upd::Fail { id: m.htlc_id }),
						Wire::Fee(m) => Item::Upd(Upd::Fee { rate: m.feerate_per_kw }),
						Wire::Commit(_) => Item::Commit,
						Wire::Raa(_) => Item::Raa,
						Wire::Error(_) => {
							self.closed[ci] = true;
							continue;
						},
						_ => continue,
					};
					let is_commit = item == Item::Commit;
					self.models[ci].on_recv(side, item);
					if is_commit {
						let exp = self.models[ci]
							.commitment_of(side)
							.map_err(|e| Failure::new("commitment-agreement", format!("wire model: {}", e)))?;
						self.pending.entry((ci, side)).or_default().push(exp);
					}
				},
				Obs::Restarted { node, lost_delivery, lost_earlier, .. } => {
					// the message being handled when the node died was never durably processed; a deferred-mode node
					// also forgets everything it handled since its manager was last written (latest first)
					for (_from, wire) in lost_delivery.iter().chain(lost_earlier.iter().rev()) {
						if let Some(cid) = wire.channel_id() {
							if let Some(ci) = self.chan_idx(&cid) {
								if let Some(side) = self.side(ci, *node) {
									let was_commit = matches!(wire, Wire::Commit(_));
									if matches!(wire, Wire::Add(_) | Wire::Fulfill(_) | Wire::Fail(_) | Wire::FailMalformed(_) | Wire::Fee(_) | Wire::Commit(_) | Wire::Raa(_)) {
										self.models[ci].recv[side].pop();
										if was_commit {
											self.models[ci].commits_received[side] -= 1;
											if let Some(q) = self.pending.get_mut(&(ci, side)) {
												q.pop();
											}
										}
									}
								}
							}
						}
					}
				},
				Obs::Disconnected { a, b } => {
					for ci in 0..self.chans.len() {
						if self.chans[ci].nodes == [*a.min(b), *a.max(b)] {
							if matches!(self.models[ci].recv[0].last(), Some(Item::Upd(_))) || matches!(self.models[ci].recv[1].last(), Some(Item::Upd(_))) {
								crate::runner::witness("disconnect-with-uncommitted-updates");
							}
							self.models[ci].on_disconnect();
						}
					}
				},
				Obs::Persist { node, rec } => {
					if rec.holder_commits.is_empty() {
						continue;
					}
					let ci = match self.chan_idx(&rec.chan) {
						Some(c) => c,
						None => continue,
					};
					let side = match self.side(ci, *node) {
						Some(s) => s,
						None => continue,
					};
					for hc in rec.holder_commits.iter() {
						let q = self.pending.entry((ci, side)).or_default();
						let pos = q.iter().position(|e| e.number == hc.number);
						let exp = match pos {
							Some(p) => q.remove(p),
							None => {
								if self.matched.get(&(ci, side, hc.number)) == Some(&hc.txid) {
									crate::runner::witness("holder-commitment-update-replayed-after-restart");
									continue;
								}
								return Err(Failure::new(
									"commitment-agreement",
									format!(
										"node {} accepted holder commitment #{} that no delivered commitment_signed accounts for",
										node,
										INITIAL_COMMITMENT_NUMBER - hc.number
									),
								))
							},
						};
						self.structural(ci, hc, "accepted holder")?;
						self.compare(ci, side, &exp, hc)?;
						self.matched.insert((ci, side, hc.number), hc.txid);
						// the signer built the same transaction
						if let Some(txid) = self.signed.get(&(ci, 1 - side, hc.number)) {
							if *txid != hc.txid {
								return Err(Failure::new(
									"commitment-agreement",
									format!("signer and acceptor disagree on commitment #{}", INITIAL_COMMITMENT_NUMBER - hc.number),
								));
							}
						}
					}
				},
				Obs::Sig(SigEv::SignCounterpartyCommitment { node, info, .. }) => {
					let node = &((*node - b'A') as usize);
					// find the channel by funding outpoint / by node membership
					for ci in 0..self.chans.len() {
						if let Some(side) = self.side(ci, *node) {
							let matches = match (info.funding_outpoint, self.chans[ci].funding) {
								(Some(a), Some(b)) => a == b,
								_ => self.chans.iter().filter(|c| c.nodes.contains(node)).count() == 1 || info.channel_value_sat == self.chans[ci].params.value_sat,
							};
							if matches {
								if info.number != INITIAL_COMMITMENT_NUMBER {
									self.structural(ci, info, "signed counterparty")?;
								}
								self.signed.insert((ci, side, info.number), info.txid);
								break;
							}
						}
					}
				},
				Obs::Event { ev: Event::ChannelClosed { channel_id, .. }, .. } => {
					if let Some(ci) = self.chan_idx(channel_id) {
						self.closed[ci] = true;
					}
				},
				_ => {},
			}
		}
		Ok(())
	}

	fn at_end(&mut self, w: &mut World) -> Result<String, Failure> {
		// every delivered commitment_signed must have produced an accepted holder commitment
		for ((ci, side), q) in self.pending.iter() {
			if !q.is_empty() && !self.closed[*ci] {
				return Err(Failure::new(
					"commitment-agreement",
					format!("chan {} side {}: {} delivered commitment_signed never accepted", ci, side, q.len()),
				));
			}
		}
		// ledger: final model balances = opening ± settled payments
		let mut label = String::new();
		for ci in 0..self.chans.len() {
			if self.closed[ci] {
				label.push_str("closed;");
				continue;
			}
			let c = &self.chans[ci];
			let mut exp: [i128; 2] = [0, 0];
			exp[c.params.funder] = c.params.value_sat as i128 * 1000 - c.params.push_msat as i128;
			exp[1 - c.params.funder] = c.params.push_msat as i128;
			let mut unresolved = 0;
			if self.chans.len() == 1 {
				for p in w.payments.iter() {
					if !p.send_ok {
						continue;
					}
					let sent = w.obs.iter().any(|o| matches!(o, Obs::Event { ev: Event::PaymentSent { payment_hash, .. }, .. } if *payment_hash == p.hash));
					let failed = w.obs.iter().any(|o| matches!(o, Obs::Event { ev: Event::PaymentFailed { payment_hash: Some(h), .. }, .. } if *h == p.hash));
					let fs = self.side(ci, p.from).unwrap();
					let ts = self.side(ci, p.to).unwrap();
					if sent {
						exp[fs] -= p.amount_msat as i128;
						exp[ts] += p.amount_msat as i128;
					} else if !failed {
						unresolved += 1;
					}
				}
				if unresolved == 0 {
					for side in 0..2 {
						if self.models[ci].commits_received[side] == 0 {
							continue;
						}
						let m = self.models[ci]
							.commitment_of(side)
							.map_err(|e| Failure::new("commitment-agreement", format!("wire model at end: {}", e)))?;
						if !m.htlcs.is_empty() {
							return Err(Failure::new(
								"balance-ledger",
								format!("chan {}: {} HTLCs still pending in side {}'s commitment although every payment is resolved", ci, m.htlcs.len(), side),
							));
						}
						if m.balance_msat[0] as i128 != exp[0] || m.balance_msat[1] as i128 != exp[1] {
							return Err(Failure::new(
								"balance-ledger",
								format!("chan {}: final balances {:?} != opening ± settled {:?}", ci, m.balance_msat, exp),
							));
						}
					}
				}
			}
			crate::runner::witness_n("commitments-checked-against-model", self.checked);
			self.checked = 0;
			let fin: Vec<String> = (0..2)
				.map(|s| self.models[ci].commitment_of(s).map(|m| format!("{}", m.balance_msat[0])).unwrap_or_default())
				.collect();
			label.push_str(&format!("u{}b{}c{:?}", unresolved, fin.join("/"), self.models[ci].commits_received));
		}
		Ok(label)
	}
}

// -------------------------------------------------------------------------------------------------
/// C05: revoked state is never used; state is never revoked early. Built only from the recording
/// signer, the persisted update kinds, the wire and the broadcaster.
pub struct RevocationOracle {
	pub chans: Vec<ChanInfo>,
	/// keys_id -> (chan index, side)
	keys: BTreeMap<(u8, [u8; 32]), (usize, usize)>,
	/// per (chan, side): holder commitment numbers accepted, with durability flag
	holder_accepted: BTreeMap<(usize, usize), BTreeMap<u64, bool>>,
	/// per (chan, side): update id -> holder commitment numbers carried (to mark durable on completion)
	holder_by_update: BTreeMap<(usize, usize, u64), Vec<u64>>,
	/// per (chan, side): lowest (newest) own commitment number whose secret was released (revoked: >= this)
	revoked_from: BTreeMap<(usize, usize), u64>,
	/// per (chan, side): txid -> number of that side's holder commitments (learnt from the peer's signing)
	holder_txids: BTreeMap<(usize, usize), BTreeMap<bitcoin::Txid, u64>>,
	/// per (chan, side): lowest counterparty commitment number whose secret this side has stored
	cp_revoked_from: BTreeMap<(usize, usize), u64>,
	/// per (chan, side): last counterparty commitment number signed
	last_signed_cp: BTreeMap<(usize, usize), u64>,
	pub require_durable: bool,
}

impl RevocationOracle {
	pub fn new(w: &World, chans: Vec<ChanInfo>) -> Self {
		let mut o = RevocationOracle {
			chans,
			keys: BTreeMap::new(),
			holder_accepted: BTreeMap::new(),
			holder_by_update: BTreeMap::new(),
			revoked_from: BTreeMap::new(),
			holder_txids: BTreeMap::new(),
			cp_revoked_from: BTreeMap::new(),
			last_signed_cp: BTreeMap::new(),
			require_durable: true,
		};
		// learn keys_id -> channel and the initial commitments from the set-up observations
		let setup: Vec<Obs> = w.obs.clone();
		let _ = o.scan(&setup, true);
		o
	}
	fn side(&self, ci: usize, node: usize) -> Option<usize> {
		self.chans[ci].nodes.iter().position(|n| *n == node)
	}
	fn chan_idx(&self, cid: &ChannelId) -> Option<usize> {
		self.chans.iter().position(|c| c.cid == *cid)
	}
	fn fail(d: String) -> Failure {
		Failure::new("revocation", d)
	}

	fn scan(&mut self, obs: &[Obs], setup: bool) -> Result<(), Failure> {
		for o in obs {
			match o {
				Obs::Sig(SigEv::SignCounterpartyCommitment { node, keys_id, info }) => {
					let n = (*node - b'A') as usize;
					if !self.keys.contains_key(&(*node, *keys_id)) {
						if let Some(fo) = info.funding_outpoint {
							for ci in 0..self.chans.len() {
								if self.chans[ci].funding == Some(fo) {
									if let Some(s) = self.side(ci, n) {
										self.keys.insert((*node, *keys_id), (ci, s));
									}
								}
							}
						}
					}
					let (ci, s) = match self.keys.get(&(*node, *keys_id)) {
						Some(x) => *x,
						None => continue,
					};
					// the peer's holder commitment with this number has this txid
					self.holder_txids.entry((ci, 1 - s)).or_default().insert(info.txid, info.number);
					if info.number == INITIAL_COMMITMENT_NUMBER {
						self.holder_accepted.entry((ci, 1 - s)).or_default().insert(info.number, true);
					}
					let last = self.last_signed_cp.get(&(ci, s)).copied().unwrap_or(INITIAL_COMMITMENT_NUMBER + 1);
					if !(info.number == last || info.number + 1 == last) {
						return Err(Self::fail(format!(
							"node {} signed counterparty commitment number {} after {} (must advance by exactly one)",
							n,
							INITIAL_COMMITMENT_NUMBER - info.number,
							INITIAL_COMMITMENT_NUMBER.wrapping_sub(last) as i64
						)));
					}
					self.last_signed_cp.insert((ci, s), info.number);
					// at most one earlier counterparty commitment may be unrevoked: m+2 must be revoked
					if info.number + 2 <= INITIAL_COMMITMENT_NUMBER {
						let rev = self.cp_revoked_from.get(&(ci, s)).copied().unwrap_or(u64::MAX);
						if rev > info.number + 2 {
							return Err(Self::fail(format!(
								"node {} signed counterparty commitment #{} while #{} is still unrevoked",
								n,
								INITIAL_COMMITMENT_NUMBER - info.number,
								INITIAL_COMMITMENT_NUMBER - (info.number + 2)
							)));
						}
					}
					if !setup {
						crate::runner::witness("c05-sign-counterparty");
					}
				},
				Obs::Persist { node, rec } => {
					let ci = match self.chan_idx(&rec.chan) {
						Some(c) => c,
						None => continue,
					};
					let s = match self.side(ci, *node) {
						Some(s) => s,
						None => continue,
					};
					let mut nums = Vec::new();
					for hc in rec.holder_commits.iter() {
						let m = self.holder_accepted.entry((ci, s)).or_default();
						if let Some((&newest, _)) = m.iter().next() {
							if hc.number + 1 != newest && hc.number != newest {
								return Err(Self::fail(format!(
									"node {} holder commitment number jumped from {} to {}",
									node,
									INITIAL_COMMITMENT_NUMBER - newest,
									INITIAL_COMMITMENT_NUMBER - hc.number
								)));
							}
						}
						m.insert(hc.number, !rec.in_progress);
						nums.push(hc.number);
					}
					if let Some(uid) = rec.update_id {
						if !nums.is_empty() {
							self.holder_by_update.insert((ci, s, uid), nums);
						}
					}
					for st in rec.steps.iter() {
						if st.name == "CommitmentSecret" {
							if let Some(idx) = st.number {
								let e = self.cp_revoked_from.entry((ci, s)).or_insert(u64::MAX);
								if *e != u64::MAX && idx + 1 != *e && idx != *e {
									return Err(Self::fail(format!("node {} stored counterparty secret {} after {}", node, idx, *e)));
								}
								*e = idx;
							}
						}
					}
				},
				Obs::Completed { node, chan, id } => {
					if let Some(ci) = self.chan_idx(chan) {
						if let Some(s) = self.side(ci, *node) {
							// completing id implies all lower ids complete too only once they were reported; be exact:
							if let Some(nums) = self.holder_by_update.get(&(ci, s, *id)).cloned() {
								for n in nums {
									self.holder_accepted.entry((ci, s)).or_default().insert(n, true);
								}
							}
						}
					}
				},
				Obs::Restarted { node, .. } => {
					// whatever the restarted node reloaded is durable by construction
					for ((_, s), m) in self.holder_accepted.iter_mut() {
						let _ = s;
						let _ = node;
						for (_, d) in m.iter_mut() {
							*d = true;
						}
					}
				},
				Obs::Sig(SigEv::ReleaseSecret { node, keys_id, idx }) => {
					let (ci, s) = match self.keys.get(&(*node, *keys_id)) {
						Some(x) => *x,
						None => continue,
					};
					if std::env::var("MC_TRACE").is_ok() {
						eprintln!("      [rev] release ci={} s={} idx={} accepted={:?} keys={:?}", ci, s, INITIAL_COMMITMENT_NUMBER - idx, self.holder_accepted.iter().map(|(k, v)| (k, v.keys().map(|n| INITIAL_COMMITMENT_NUMBER - n).collect::<Vec<_>>())).collect::<Vec<_>>(), self.keys.values().collect::<Vec<_>>());
					}
					let acc = self.holder_accepted.entry((ci, s)).or_default();
					match acc.get(&(idx - 1)) {
						None => {
							return Err(Self::fail(format!(
								"node {} released the secret of its commitment #{} without holding a signed commitment #{}",
								(*node - b'A'),
								INITIAL_COMMITMENT_NUMBER - idx,
								INITIAL_COMMITMENT_NUMBER - (idx - 1)
							)))
						},
						Some(durable) => {
							if self.require_durable && !*durable {
								return Err(Self::fail(format!(
									"node {} released the secret of commitment #{} before the monitor update carrying commitment #{} was durable",
									(*node - b'A'),
									INITIAL_COMMITMENT_NUMBER - idx,
									INITIAL_COMMITMENT_NUMBER - (idx - 1)
								)));
							}
						},
					}
					let e = self.revoked_from.entry((ci, s)).or_insert(u64::MAX);
					*e = (*e).min(*idx);
					if !setup {
						crate::runner::witness("c05-release-secret");
					}
				},
				Obs::Sig(SigEv::SignHolderCommitment { node, keys_id, number, .. }) => {
					if let Some((ci, s)) = self.keys.get(&(*node, *keys_id)) {
						let rev = self.revoked_from.get(&(*ci, *s)).copied().unwrap_or(u64::MAX);
						if *number >= rev {
							return Err(Self::fail(format!(
								"node {} signed its REVOKED holder commitment #{}",
								(*node - b'A'),
								INITIAL_COMMITMENT_NUMBER - number
							)));
						}
						crate::runner::witness("c05-sign-holder-commitment");
					}
				},
				Obs::Sig(SigEv::SignHolderHtlc { node, keys_id, commitment_number, .. }) => {
					if let Some((ci, s)) = self.keys.get(&(*node, *keys_id)) {
						let rev = self.revoked_from.get(&(*ci, *s)).copied().unwrap_or(u64::MAX);
						if *commitment_number >= rev {
							return Err(Self::fail(format!(
								"node {} signed an HTLC transaction on its REVOKED commitment #{}",
								(*node - b'A'),
								INITIAL_COMMITMENT_NUMBER - commitment_number
							)));
						}
						crate::runner::witness("c05-sign-holder-htlc");
					}
				},
				Obs::Broadcast { node, b, .. } => {
					for tx in b.txs.iter() {
						let txid = tx.compute_txid();
						for ci in 0..self.chans.len() {
							if let Some(s) = self.side(ci, *node) {
								let rev = self.revoked_from.get(&(ci, s)).copied().unwrap_or(u64::MAX);
								if let Some(num) = self.holder_txids.get(&(ci, s)).and_then(|m| m.get(&txid)) {
									if *num >= rev {
										return Err(Self::fail(format!(
											"node {} broadcast its REVOKED commitment #{}",
											node,
											INITIAL_COMMITMENT_NUMBER - num
										)));
									}
									crate::runner::witness("c05-broadcast-holder-commitment");
								}
								// HTLC transactions spending a revoked holder commitment
								for inp in tx.input.iter() {
									if let Some(num) = self.holder_txids.get(&(ci, s)).and_then(|m| m.get(&inp.previous_output.txid)) {
										if *num >= rev {
											return Err(Self::fail(format!(
												"node {} broadcast a transaction spending its REVOKED commitment #{}",
												node,
												INITIAL_COMMITMENT_NUMBER - num
											)));
										}
									}
								}
							}
						}
					}
				},
				_ => {},
			}
		}
		Ok(())
	}
}

impl Oracle for RevocationOracle {
	fn name(&self) -> &'static str {
		"revocation"
	}
	fn observe(&mut self, _w: &World, obs: &[Obs]) -> Result<(), Failure> {
		self.scan(obs, false)
	}
}

// -------------------------------------------------------------------------------------------------
/// C09: update ids gap-free; nothing that depends on an update is released before it (and all
/// earlier ones) completed; no commitment_signed / revoke_and_ack while an update is outstanding.
pub struct PersistOrderOracle {
	pub chans: Vec<ChanInfo>,
	/// (node, chan) -> last update id handed to Persist
	last_id: BTreeMap<(usize, usize), u64>,
	/// (node, chan) -> ids answered InProgress and not yet completed
	outstanding: BTreeMap<(usize, usize), Vec<u64>>,
	/// (node, chan) -> update id that carried LatestCounterpartyCommitment(number)
	cp_commit_update: BTreeMap<(usize, usize, u64), u64>,
	/// (node, chan) -> update id that carried LatestHolderCommitment(number)
	holder_commit_update: BTreeMap<(usize, usize, u64), u64>,
	/// (node, chan, preimage) -> update id carrying PaymentPreimage
	preimage_update: BTreeMap<(usize, usize, [u8; 32]), u64>,
	/// (node, chan) -> update id carrying CommitmentSecret(idx) (the peer's revocation we stored)
	secret_update: BTreeMap<(usize, usize, u64), u64>,
	/// (node, chan) -> has the initial persist (persist_new_channel) been seen / completed
	initial_done: BTreeMap<(usize, usize), bool>,
	keys: BTreeMap<(u8, [u8; 32]), (usize, usize)>,
	last_signed_cp: BTreeMap<(usize, usize), u64>,
	last_released: BTreeMap<(usize, usize), u64>,
	/// by temporary knowledge: funding txid -> (node, chan)
	pub check_initial: bool,
}

impl PersistOrderOracle {
	pub fn new(w: &World, chans: Vec<ChanInfo>) -> Self {
		let mut o = PersistOrderOracle {
			chans,
			last_id: BTreeMap::new(),
			outstanding: BTreeMap::new(),
			cp_commit_update: BTreeMap::new(),
			holder_commit_update: BTreeMap::new(),
			preimage_update: BTreeMap::new(),
			secret_update: BTreeMap::new(),
			initial_done: BTreeMap::new(),
			keys: BTreeMap::new(),
			last_signed_cp: BTreeMap::new(),
			last_released: BTreeMap::new(),
			check_initial: false,
		};
		let setup: Vec<Obs> = w.obs.clone();
		let _ = o.scan(&setup, true);
		o
	}
	fn side(&self, ci: usize, node: usize) -> Option<usize> {
		self.chans[ci].nodes.iter().position(|n| *n == node)
	}
	fn chan_idx(&self, cid: &ChannelId) -> Option<usize> {
		self.chans.iter().position(|c| c.cid == *cid)
	}
	fn fail(o: &str, d: String) -> Failure {
		Failure::new(o, d)
	}
	fn is_complete(&self, node: usize, ci: usize, id: u64) -> bool {
		match self.outstanding.get(&(node, ci)) {
			Some(v) => !v.iter().any(|x| *x <= id),
			None => true,
		}
	}

	fn scan(&mut self, obs: &[Obs], setup: bool) -> Result<(), Failure> {
		for o in obs {
			match o {
				Obs::Persist { node, rec } => {
					let ci = match self.chan_idx(&rec.chan) {
						Some(c) => c,
						None => continue,
					};
					let key = (*node, ci);
					if rec.new_channel {
						self.initial_done.insert(key, !rec.in_progress);
						if rec.in_progress {
							self.outstanding.entry(key).or_default().push(rec.monitor_update_id);
							crate::runner::witness("c09-initial-persist-in-progress");
						}
						self.last_id.entry(key).or_insert(rec.monitor_update_id);
						continue;
					}
					let uid = match rec.update_id {
						Some(u) => u,
						None => {
							// chain-sync write - or an update the monitor refused after its channel was closed on
							// chain, which the ChainMonitor then persists as a full monitor: the monitor's latest
							// update id still advances by exactly one
							if let Some(last) = self.last_id.get_mut(&key) {
								if rec.monitor_update_id == *last + 1 {
									*last += 1;
									crate::runner::witness("c09-refused-update-persisted-in-full");
								} else if rec.monitor_update_id > *last + 1 {
									return Err(Self::fail(
										"update-id-order",
										format!("node {} chan {}: full-monitor write at update id {} after {}", node, ci, rec.monitor_update_id, last),
									));
								}
							}
							continue;
						},
					};
					if let Some(last) = self.last_id.get(&key) {
						if uid != *last + 1 {
							return Err(Self::fail(
								"update-id-order",
								format!("node {} chan {}: update id {} handed to Persist after {}", node, ci, uid, last),
							));
						}
					}
					self.last_id.insert(key, uid);
					if rec.in_progress {
						self.outstanding.entry(key).or_default().push(uid);
						if !setup {
							crate::runner::witness("c09-update-in-progress");
							if self.outstanding[&key].len() > 1 {
								crate::runner::witness("c09-two-updates-outstanding");
							}
						}
					}
					for st in rec.steps.iter() {
						match st.name {
							"LatestCounterpartyCommitmentTXInfo" | "LatestCounterpartyCommitment" => {
								if let Some(n) = st.number {
									self.cp_commit_update.insert((*node, ci, n), uid);
								}
							},
							"LatestHolderCommitmentTXInfo" | "LatestHolderCommitment" => {
								if let Some(n) = st.number {
									self.holder_commit_update.insert((*node, ci, n), uid);
								}
							},
							"PaymentPreimage" => {
								if let Some(p) = st.preimage {
									self.preimage_update.entry((*node, ci, p)).or_insert(uid);
								}
							},
							"CommitmentSecret" => {
								if let Some(n) = st.number {
									self.secret_update.insert((*node, ci, n), uid);
								}
							},
							_ => {},
						}
					}
				},
				Obs::Completed { node, chan, id } => {
					if let Some(ci) = self.chan_idx(chan) {
						if let Some(v) = self.outstanding.get_mut(&(*node, ci)) {
							v.retain(|x| x != id);
						}
						if self.initial_done.get(&(*node, ci)) == Some(&false) {
							self.initial_done.insert((*node, ci), true);
						}
					}
				},
				Obs::Restarted { node, chosen, .. } => {
					// in-flight updates are replayed gap-free on top of the monitor that was loaded
					let keys: Vec<(usize, usize)> = self.last_id.keys().filter(|k| k.0 == *node).cloned().collect();
					for k in keys {
						self.last_id.remove(&k);
						self.outstanding.remove(&k);
					}
					for (cid, id) in chosen.iter() {
						if let Some(ci) = self.chan_idx(cid) {
							self.last_id.insert((*node, ci), *id);
						}
					}
				},
				Obs::Sig(SigEv::SignCounterpartyCommitment { node, keys_id, info }) => {
					let n = (*node - b'A') as usize;
					if !self.keys.contains_key(&(*node, *keys_id)) {
						if let Some(fo) = info.funding_outpoint {
							for ci in 0..self.chans.len() {
								if self.chans[ci].funding == Some(fo) && self.side(ci, n).is_some() {
									self.keys.insert((*node, *keys_id), (n, ci));
								}
							}
						}
					}
					if let Some(k) = self.keys.get(&(*node, *keys_id)) {
						self.last_signed_cp.insert(*k, info.number);
					}
				},
				Obs::Sig(SigEv::ReleaseSecret { node, keys_id, idx }) => {
					if let Some(k) = self.keys.get(&(*node, *keys_id)) {
						self.last_released.insert(*k, *idx);
					}
				},
				Obs::Sent { from, wire, .. } => {
					if setup && !self.check_initial {
						continue;
					}
					let cid = match wire.channel_id() {
						Some(c) => c,
						None => continue,
					};
					let ci = match self.chan_idx(&cid) {
						Some(c) => c,
						None => continue,
					};
					let key = (*from, ci);
					match wire {
						Wire::Commit(_) => {
							if let Some(m) = self.last_signed_cp.get(&key) {
								match self.cp_commit_update.get(&(*from, ci, *m)) {
									Some(uid) => {
										if !self.is_complete(*from, ci, *uid) {
											return Err(Self::fail("release-before-durable", format!("commitment_signed for counterparty commitment {} sent before update {} completed", INITIAL_COMMITMENT_NUMBER - m, uid)));
										}
									},
									None => {
										if *m != INITIAL_COMMITMENT_NUMBER {
											return Err(Self::fail(
												"release-before-durable",
												format!("node {} sent commitment_signed for counterparty commitment #{} but no monitor update carrying it was handed to Persist", from, INITIAL_COMMITMENT_NUMBER - m),
											));
										}
									},
								}
							}
							crate::runner::witness("c09-commitment-signed-checked");
						},
						Wire::Raa(_) => {
							if let Some(idx) = self.last_released.get(&key) {
								match self.holder_commit_update.get(&(*from, ci, idx - 1)) {
									Some(uid) => {
										if !self.is_complete(*from, ci, *uid) {
											return Err(Self::fail("release-before-durable", format!("revoke_and_ack sent before update {} completed", uid)));
										}
									},
									None => {
										return Err(Self::fail(
											"release-before-durable",
											format!("node {} revoked commitment #{} but no monitor update carrying holder commitment #{} was handed to Persist", from, INITIAL_COMMITMENT_NUMBER - idx, INITIAL_COMMITMENT_NUMBER - (idx - 1)),
										))
									},
								}
							}
							crate::runner::witness("c09-revoke-and-ack-checked");
						},
						Wire::ChannelReady(_) => {
							if self.initial_done.get(&key) == Some(&false) {
								return Err(Self::fail("release-before-durable", format!("node {} sent channel_ready before the initial monitor persist completed", from)));
							}
						},
						Wire::Fulfill(m) => {
							// an upstream claim requires the preimage to be durable in this channel's monitor
							match self.preimage_update.get(&(*from, ci, m.payment_preimage.0)) {
								Some(uid) => {
									if !self.is_complete(*from, ci, *uid) {
										return Err(Self::fail(
											"release-before-durable",
											format!("node {} sent update_fulfill_htlc on chan {} before preimage update {} completed", from, ci, uid),
										));
									}
									crate::runner::witness("c09-fulfill-checked");
								},
								None => {
									return Err(Self::fail(
										"release-before-durable",
										format!("node {} sent update_fulfill_htlc on chan {} but no PaymentPreimage update was handed to Persist for it", from, ci),
									))
								},
							}
						},
						Wire::Add(_) => {
							// forwarding (or sending) an HTLC never happens while this channel has an outstanding update,
							// because the add is accompanied by a commitment_signed (checked above).
						},
						_ => {},
					}
				},
				Obs::Broadcast { node, b, .. } => {
					if b.kinds.iter().any(|k| k == "Funding") {
						for ci in 0..self.chans.len() {
							if self.side(ci, *node).is_some() && self.initial_done.get(&(*node, ci)) == Some(&false) {
								return Err(Self::fail("release-before-durable", format!("node {} broadcast the funding transaction before the initial monitor persist completed", node)));
							}
						}
					}
				},
				_ => {},
			}
		}
		Ok(())
	}
}

impl Oracle for PersistOrderOracle {
	fn name(&self) -> &'static str {
		"persist-order"
	}
	fn observe(&mut self, _w: &World, obs: &[Obs]) -> Result<(), Failure> {
		self.scan(obs, false)
	}
	fn at_end(&mut self, w: &mut World) -> Result<String, Failure> {
		for (k, v) in self.outstanding.iter() {
			if !v.is_empty() {
				return Err(Self::fail("harness", format!("updates {:?} of node {} chan {} never completed by the harness", v, k.0, k.1)));
			}
		}
		for (i, n) in w.nodes.iter().enumerate() {
			if n.deferred && n.mon.pending_operation_count() > 0 {
				return Err(Self::fail(
					"deferred-operations-flushed",
					format!("node {} is quiescent with {} queued monitor operations its background task was never asked to flush (no manager persistence requested)", i, n.mon.pending_operation_count()),
				));
			}
		}
		Ok(String::new())
	}
}

// -------------------------------------------------------------------------------------------------
/// Every payment reaches the terminal outcome its recipient chose (used as the differential end
/// state for C09 and as a building block of C03).
pub struct PaymentsResolveOracle;
impl Oracle for PaymentsResolveOracle {
	fn name(&self) -> &'static str {
		"payments-resolve"
	}
	fn observe(&mut self, _w: &World, _obs: &[Obs]) -> Result<(), Failure> {
		Ok(())
	}
	fn at_end(&mut self, w: &mut World) -> Result<String, Failure> {
		use crate::world::ClaimPolicy;
		let mut label = String::new();
		for p in w.payments.iter() {
			if !p.send_ok {
				label.push('x');
				continue;
			}
			let sent = w.obs.iter().filter(|o| matches!(o, Obs::Event { ev: Event::PaymentSent { payment_hash, .. }, .. } if *payment_hash == p.hash)).count();
			let failed = w.obs.iter().filter(|o| matches!(o, Obs::Event { ev: Event::PaymentFailed { payment_hash: Some(h), .. }, .. } if *h == p.hash)).count();
			let claimed = w.obs.iter().filter(|o| matches!(o, Obs::Event { ev: Event::PaymentClaimed { payment_hash, .. }, .. } if *payment_hash == p.hash)).count();
			let fail = |d: String| Failure::new("payments-resolve", d);
			match p.policy {
				ClaimPolicy::Claim => {
					if p.claimed_by_recipient && (sent != 1 || failed != 0 || claimed != 1) {
						return Err(fail(format!("payment {} claimed by recipient: PaymentSent x{}, PaymentFailed x{}, PaymentClaimed x{}", p.amount_msat, sent, failed, claimed)));
					}
					if !p.claimed_by_recipient && sent != 0 {
						return Err(fail("PaymentSent for a payment the recipient never claimed".into()));
					}
					label.push(if sent == 1 { 'S' } else if failed == 1 { 'F' } else { '?' });
				},
				ClaimPolicy::Fail => {
					if sent != 0 || (p.failed_by_recipient && failed != 1) {
						return Err(fail(format!("payment {} failed by recipient: PaymentSent x{}, PaymentFailed x{}", p.amount_msat, sent, failed)));
					}
					label.push(if failed == 1 { 'F' } else { '?' });
				},
				ClaimPolicy::Hold => {
					if p.claimed_by_recipient {
						if sent != 1 || failed != 0 {
							return Err(fail(format!("held payment later claimed: PaymentSent x{} PaymentFailed x{}", sent, failed)));
						}
						label.push('S');
					} else if p.failed_by_recipient {
						if sent != 0 || failed != 1 {
							return Err(fail(format!("held payment later failed: PaymentSent x{} PaymentFailed x{}", sent, failed)));
						}
						label.push('F');
					} else {
						if sent != 0 {
							return Err(fail("PaymentSent for a held payment".into()));
						}
						label.push('H');
					}
				},
			}
		}
		Ok(label)
	}
}

// -------------------------------------------------------------------------------------------------
/// Off-chain funds of a node in msat: Σ over its open channels of (spendable + reserve). Exact
/// only when the node has no pending HTLC (callers check `pending_htlcs == 0`).
pub fn offchain_funds_msat(w: &World, node: usize) -> (u64, usize, usize) {
	let mut total = 0u64;
	let mut pending = 0usize;
	let chans = w.nodes[node].cm.list_channels();
	for c in chans.iter() {
		total += c.outbound_capacity_msat + c.unspendable_punishment_reserve.unwrap_or(0) * 1000;
		pending += c.pending_inbound_htlcs.len() + c.pending_outbound_htlcs.len();
	}
	(total, pending, chans.len())
}

/// C02: a forwarding node never loses money on an HTLC it forwards (wire-level step oracles +
/// end-of-execution funds comparison for executions that stay off-chain).
pub struct ForwardOracle {
	pub chans: Vec<ChanInfo>,
	/// forwarding node index
	pub fwd: usize,
	/// channel index upstream (payer side) and downstream
	pub up: usize,
	pub down: usize,
	pub fee_base_msat: u64,
	pub cltv_delta: u32,
	pub funds_before: u64,
	/// hash -> (amount_in, cltv_in, upstream htlc id)
	incoming: BTreeMap<[u8; 32], (u64, u32, u64)>,
	/// hash -> downstream preimage delivered to the forwarder
	preimage_learned: BTreeMap<[u8; 32], bool>,
	/// downstream commitments signed by the forwarder: (number, hashes of non-dust HTLCs it offers)
	signed_down: Vec<(u64, Vec<[u8; 32]>)>,
	/// lowest downstream counterparty commitment number revoked so far
	down_revoked_from: u64,
	/// hashes failed upstream
	failed_up: BTreeMap<[u8; 32], bool>,
	fulfilled_up: BTreeMap<[u8; 32], bool>,
	forwarded_events: Vec<(Option<u64>, bool)>,
	keys: BTreeMap<(u8, [u8; 32]), usize>,
	pub closed_any: bool,
	/// every commitment transaction of the downstream channel ever signed (by either side):
	/// txid -> (hash, output index) of its non-dust HTLCs
	down_commit_txs: BTreeMap<bitcoin::Txid, Vec<([u8; 32], Option<u32>)>>,
	/// upstream monitor: update id carrying the PaymentPreimage step per payment hash, and ids in flight
	up_preimage_update: BTreeMap<[u8; 32], u64>,
	up_outstanding: Vec<u64>,
}

impl ForwardOracle {
	pub fn new(w: &World, chans: Vec<ChanInfo>, fwd: usize, up: usize, down: usize) -> Self {
		let (funds_before, _, _) = offchain_funds_msat(w, fwd);
		let mut o = ForwardOracle {
			chans,
			fwd,
			up,
			down,
			fee_base_msat: 1000,
			cltv_delta: 72,
			funds_before,
			incoming: BTreeMap::new(),
			preimage_learned: BTreeMap::new(),
			signed_down: Vec::new(),
			down_revoked_from: u64::MAX,
			failed_up: BTreeMap::new(),
			fulfilled_up: BTreeMap::new(),
			forwarded_events: Vec::new(),
			keys: BTreeMap::new(),
			closed_any: false,
			down_commit_txs: BTreeMap::new(),
			up_preimage_update: BTreeMap::new(),
			up_outstanding: Vec::new(),
		};
		let setup: Vec<Obs> = w.obs.clone();
		let _ = o.scan(w, &setup);
		o.signed_down.clear();
		o
	}
	fn fail(d: String) -> Failure {
		Failure::new("forwarder-safety", d)
	}
	/// On-chain branch of "can no longer be claimed by the next hop": the downstream funding output
	/// was spent by a commitment that is buried by the anti-reorg depth and either does not contain
	/// the HTLC, or contains it and its HTLC output was spent by a transaction that is buried too.
	fn resolved_on_chain(&self, w: &World, h: &[u8; 32]) -> bool {
		let fo = match self.chans[self.down].funding {
			Some(f) => bitcoin::OutPoint { txid: f.0, vout: f.1 as u32 },
			None => return false,
		};
		let tip = w.chain.height();
		let (ctx, ch) = match w.chain.spent_by.get(&fo) {
			Some(x) => *x,
			None => return false,
		};
		if tip + 1 < ch + 6 {
			return false;
		}
		match self.down_commit_txs.get(&ctx) {
			None => false, // cooperative close or unknown transaction
			Some(htlcs) => match htlcs.iter().find(|(hh, _)| hh == h) {
				None => true,
				Some((_, Some(idx))) => {
					let op = bitcoin::OutPoint { txid: ctx, vout: *idx };
					match w.chain.spent_by.get(&op) {
						Some((_, sh)) => tip + 1 >= sh + 6,
						None => false,
					}
				},
				Some((_, None)) => true,
			},
		}
	}

	fn scan(&mut self, w: &World, obs: &[Obs]) -> Result<(), Failure> {
		let up_cid = self.chans[self.up].cid;
		let down_cid = self.chans[self.down].cid;
		for o in obs {
			match o {
				Obs::Delivered { to, wire: Wire::Add(m), .. } if *to == self.fwd && m.channel_id == up_cid => {
					self.incoming.insert(m.payment_hash.0, (m.amount_msat, m.cltv_expiry, m.htlc_id));
				},
				Obs::Sent { from, wire: Wire::Add(m), .. } if *from == self.fwd && m.channel_id == down_cid => {
					if let Some((amt_in, cltv_in, _)) = self.incoming.get(&m.payment_hash.0) {
						if m.amount_msat + self.fee_base_msat > *amt_in {
							return Err(Self::fail(format!("forwarded {} msat downstream for {} msat received (fee {} not kept)", m.amount_msat, amt_in, self.fee_base_msat)));
						}
						if m.cltv_expiry + self.cltv_delta > *cltv_in {
							return Err(Self::fail(format!("forwarded with expiry {} for incoming expiry {} (delta {} not kept)", m.cltv_expiry, cltv_in, self.cltv_delta)));
						}
						crate::runner::witness("c02-forward-amount-and-expiry-checked");
					} else if w.payments.iter().any(|p| p.from == self.fwd && p.hash == m.payment_hash) {
						// the forwarder's own payment, not a forward
					} else {
						return Err(Self::fail("forwarded an HTLC that was never received upstream".into()));
					}
				},
				Obs::Sig(SigEv::SignCounterpartyCommitment { node, keys_id, info }) => {
					let n = (*node - b'A') as usize;
					if !self.keys.contains_key(&(*node, *keys_id)) {
						if let Some(fo) = info.funding_outpoint {
							for ci in 0..self.chans.len() {
								if self.chans[ci].funding == Some(fo) {
									self.keys.insert((*node, *keys_id), ci);
								}
							}
						}
					}
					if self.keys.get(&(*node, *keys_id)) == Some(&self.down) {
						self.down_commit_txs.insert(info.txid, info.htlcs.iter().map(|h| (h.3, h.4)).collect());
					}
					if n != self.fwd {
						continue;
					}
					if self.keys.get(&(*node, *keys_id)) == Some(&self.down) {
						// HTLCs offered by the forwarder appear as *received* by the broadcaster (the downstream peer): offered == false
						let hashes: Vec<[u8; 32]> = info.htlcs.iter().filter(|h| !h.0).map(|h| h.3).collect();
						for h in hashes.iter() {
							if self.failed_up.contains_key(h) {
								return Err(Self::fail("signed a downstream commitment containing an HTLC whose upstream HTLC was already failed back".into()));
							}
						}
						self.signed_down.push((info.number, hashes));
					}
				},
				Obs::Persist { node, rec } if *node == self.fwd && rec.chan == up_cid => {
					if rec.in_progress {
						if let Some(uid) = rec.update_id {
							self.up_outstanding.push(uid);
						}
					}
					for st in rec.steps.iter() {
						if st.name == "PaymentPreimage" {
							if let (Some(p), Some(uid)) = (st.preimage, rec.update_id) {
								use bitcoin::hashes::Hash;
								let h = bitcoin::hashes::sha256::Hash::hash(&p).to_byte_array();
								self.up_preimage_update.entry(h).or_insert(uid);
							}
						}
					}
				},
				Obs::Completed { node, chan, id } if *node == self.fwd && *chan == up_cid => {
					self.up_outstanding.retain(|x| x != id);
				},
				Obs::Restarted { node, .. } if *node == self.fwd => {
					self.up_outstanding.clear();
				},
				Obs::Persist { node, rec } if *node == self.fwd && rec.chan == down_cid => {
					for st in rec.steps.iter() {
						if st.name == "CommitmentSecret" {
							if let Some(idx) = st.number {
								self.down_revoked_from = self.down_revoked_from.min(idx);
								// Does this revocation make the removal of a *claimed* HTLC irrevocable (no unrevoked
								// downstream commitment holds it any more)? Then the downstream monitor is about to
								// forget the HTLC, so the upstream monitor must already durably hold the preimage.
								let learned: Vec<[u8; 32]> = self.preimage_learned.keys().cloned().collect();
								for h in learned {
									let held: Vec<u64> = self.signed_down.iter().filter(|(_, hs)| hs.contains(&h)).map(|(n, _)| *n).collect();
									if held.is_empty() || held.iter().any(|n| *n < idx) {
										continue; // still in an unrevoked commitment (or never non-dust)
									}
									if held.iter().all(|n| *n > idx) {
										continue; // became irrevocable at an earlier revocation, judged then
									}
									match self.up_preimage_update.get(&h) {
										None => {
											return Err(Self::fail(
												"the downstream revocation that makes a claimed HTLC's removal irrevocable was handed to Persist before the upstream monitor was given the preimage".into(),
											))
										},
										Some(uid) => {
											if self.up_outstanding.iter().any(|x| x <= uid) {
												return Err(Self::fail(format!(
													"the downstream revocation that makes a claimed HTLC's removal irrevocable was handed to Persist while the upstream preimage update {} is still in flight",
													uid
												)));
											}
											crate::runner::witness("c02-raa-update-after-durable-preimage");
										},
									}
								}
							}
						}
					}
				},
				Obs::Delivered { to, wire: Wire::Fulfill(m), .. } if *to == self.fwd && m.channel_id == down_cid => {
					let h = {
						use bitcoin::hashes::Hash;
						bitcoin::hashes::sha256::Hash::hash(&m.payment_preimage.0).to_byte_array()
					};
					self.preimage_learned.insert(h, true);
					crate::runner::witness("c02-downstream-preimage-learned");
				},
				Obs::Sent { from, wire, .. }
					if *from == self.fwd && matches!(wire, Wire::Fail(_) | Wire::FailMalformed(_)) && wire.channel_id() == Some(up_cid) =>
				{
					let htlc_id = match wire {
						Wire::Fail(m) => m.htlc_id,
						Wire::FailMalformed(m) => m.htlc_id,
						_ => unreachable!(),
					};
					// which hash? by upstream htlc id
					let hash = self.incoming.iter().find(|(_, v)| v.2 == htlc_id).map(|(h, _)| *h);
					if let Some(h) = hash {
						if self.preimage_learned.contains_key(&h) {
							return Err(Self::fail("failed the upstream HTLC back although the downstream preimage had been delivered".into()));
						}
						// every downstream commitment we signed that contains it must be revoked, unless the channel
						// was resolved on chain in a way that leaves the next hop nothing to claim
						let on_chain = self.resolved_on_chain(w, &h);
						if on_chain {
							crate::runner::witness("c02-upstream-fail-after-onchain-resolution");
						}
						for (num, hashes) in self.signed_down.iter() {
							if !on_chain && hashes.contains(&h) && *num < self.down_revoked_from {
								return Err(Self::fail(format!(
									"failed the upstream HTLC back while the downstream peer still holds unrevoked commitment #{} containing the HTLC",
									INITIAL_COMMITMENT_NUMBER - num
								)));
							}
						}
						self.failed_up.insert(h, true);
						crate::runner::witness("c02-upstream-fail-checked");
					}
				},
				Obs::Sent { from, wire: Wire::Fulfill(m), .. } if *from == self.fwd && m.channel_id == up_cid => {
					let h = {
						use bitcoin::hashes::Hash;
						bitcoin::hashes::sha256::Hash::hash(&m.payment_preimage.0).to_byte_array()
					};
					self.fulfilled_up.insert(h, true);
				},
				Obs::Event { node, ev: Event::PaymentForwarded { total_fee_earned_msat, claim_from_onchain_tx, .. } } if *node == self.fwd => {
					self.forwarded_events.push((*total_fee_earned_msat, *claim_from_onchain_tx));
				},
				Obs::Event { ev: Event::ChannelClosed { .. }, .. } => {
					self.closed_any = true;
				},
				_ => {},
			}
		}
		Ok(())
	}
}

impl Oracle for ForwardOracle {
	fn name(&self) -> &'static str {
		"forwarder-safety"
	}
	fn observe(&mut self, w: &World, obs: &[Obs]) -> Result<(), Failure> {
		self.scan(w, obs)
	}
	fn at_end(&mut self, w: &mut World) -> Result<String, Failure> {
		// every learned preimage must have been claimed upstream
		for (h, _) in self.preimage_learned.iter() {
			if !self.fulfilled_up.contains_key(h) && !self.closed_any {
				return Err(Self::fail("learned the downstream preimage but never claimed the upstream HTLC".into()));
			}
		}
		let (after, pending, nchan) = offchain_funds_msat(w, self.fwd);
		let mut label = format!("fwd{}", self.forwarded_events.len());
		if !self.closed_any && pending == 0 && nchan == 2 {
			let earned: u64 = self.fulfilled_up.len() as u64 * self.fee_base_msat;
			// payments the forwarder itself received / sent are not forwards
			let received: u64 = w.payments.iter().filter(|p| p.to == self.fwd && p.claimed_by_recipient).map(|p| p.amount_msat).sum();
			let sent: u64 = w
				.payments
				.iter()
				.filter(|p| p.from == self.fwd && p.claimed_by_recipient)
				.map(|p| p.amount_msat)
				.sum();
			if after + sent != self.funds_before + earned + received {
				return Err(Self::fail(format!(
					"forwarder funds {} msat after vs {} before + {} fees earned",
					after, self.funds_before, earned
				)));
			}
			let mut reported: u64 = self.forwarded_events.iter().map(|e| e.0.unwrap_or(0)).sum();
			let fwd_restarted = w.obs.iter().any(|o| matches!(o, Obs::Restarted { node, .. } if *node == self.fwd));
			if fwd_restarted && reported > earned && self.forwarded_events.iter().all(|e| e.0 == Some(self.fee_base_msat)) {
				// events may be repeated across a restart until they were handled *and* persisted
				crate::runner::witness("c02-payment-forwarded-repeated-after-restart");
				reported = earned;
			}
			if reported != earned {
				return Err(Self::fail(format!("PaymentForwarded reports {} msat of fees, ledger says {}", reported, earned)));
			}
			crate::runner::witness("c02-funds-compared-offchain");
			label.push_str(&format!("+{}", earned));
		}
		Ok(label)
	}
}


/// Does `node` still list the payment with this id among its recent payments / have an HTLC of it in flight?
pub fn payment_listed_or_in_flight(w: &World, node: usize, id: &lightning::ln::channelmanager::PaymentId, hash: &lightning::types::payment::PaymentHash) -> bool {
	use lightning::ln::channelmanager::RecentPaymentDetails as R;
	let listed = w.nodes[node].cm.list_recent_payments().iter().any(|r| match r {
		R::AwaitingInvoice { payment_id } => payment_id == id,
		R::Pending { payment_id, .. } => payment_id == id,
		R::Fulfilled { payment_id, .. } => payment_id == id,
		R::Abandoned { payment_id, .. } => payment_id == id,
	});
	let in_flight = w.nodes[node].cm.list_channels().iter().any(|c| c.pending_outbound_htlcs.iter().any(|h| h.payment_hash == *hash));
	listed || in_flight
}

/// A payment was reported both PaymentSent and PaymentFailed. Names the history when it is the one
/// the library documents ("in exceedingly rare cases ... PaymentFailed after PaymentSent"): the
/// PaymentSent event was handled, the sender then restarted from a manager written before the
/// `update_fulfill_htlc` arrived (it still lists the payment as pending) together with a monitor that
/// is ahead of that manager, and PaymentFailed appears only after that restart.
pub fn describe_sent_and_failed(w: &World, sender: usize, hash: &lightning::types::payment::PaymentHash, sent: usize, failed: usize) -> String {
	let first_sent = w.obs.iter().position(|o| matches!(o, Obs::Event { node, ev: Event::PaymentSent { payment_hash, .. } } if *node == sender && payment_hash == hash));
	let first_failed = w.obs.iter().position(|o| matches!(o, Obs::Event { node, ev: Event::PaymentFailed { payment_hash: Some(h), .. } } if *node == sender && h == hash));
	let stale_restart = w.obs.iter().position(|o| match o {
		Obs::Restarted { node, chosen, mgr_known_ids, mgr_pending, .. } if *node == sender => {
			mgr_pending.contains(hash)
				&& chosen.iter().any(|(cid, mon_id)| mgr_known_ids.iter().any(|(c, k)| c == cid && mon_id > k))
		},
		_ => false,
	});
	let plain = format!("payment reported both PaymentSent (x{}) and PaymentFailed (x{})", sent, failed);
	match (first_sent, stale_restart, first_failed) {
		(Some(s), Some(r), Some(f)) if s < r && r < f => format!(
			"fields=[payment-sent-handled-then-payment-failed-after-restart-from-manager-predating-the-fulfil]: {} - PaymentSent was handled, then the sender restarted from a manager that still lists the payment as pending and a monitor ahead of it, and reported PaymentFailed",
			plain
		),
		_ => plain,
	}
}

/// C05, "every secret received from the peer is checked against the commitment point the peer
/// announced": a peer that announces a *second, different* point for the same commitment number
/// (a repeated `channel_ready`) cannot be honoured twice - the node must fail the channel at that
/// moment instead of silently replacing what it stored.
#[derive(Default)]
pub struct ForgedPointOracle {
	/// (to, from, channel) -> variant of the first forged channel_ready that was handed over
	first: BTreeMap<(usize, usize, String), u8>,
}
impl Oracle for ForgedPointOracle {
	fn name(&self) -> &'static str {
		"announced-point-consistency"
	}
	fn observe(&mut self, _w: &World, obs: &[Obs]) -> Result<(), Failure> {
		for (i, o) in obs.iter().enumerate() {
			if let Obs::Api { node, what, detail, .. } = o {
				if let Some(rest) = what.strip_prefix("forged-channel-ready:") {
					let mut it = rest.split(':');
					let from: usize = it.next().and_then(|x| x.parse().ok()).unwrap_or(0);
					let variant: u8 = it.next().and_then(|x| x.parse().ok()).unwrap_or(0);
					let key = (*node, from, detail.clone());
					// did the node answer this message with an error?
					let errored = obs[i..].iter().any(|x| matches!(x, Obs::Sent { from: f, to: t, wire: Wire::Error(_) } if f == node && *t == from))
						|| obs[..i].iter().rev().take(4).any(|x| matches!(x, Obs::Sent { from: f, to: t, wire: Wire::Error(_) } if f == node && *t == from));
					match self.first.get(&key) {
						None => {
							if !errored {
								self.first.insert(key, variant);
							}
						},
						Some(v) if *v != variant => {
							if !errored {
								return Err(Failure::new(
									"announced-point-consistency",
									format!("node {} accepted a second channel_ready from node {} announcing a different next_per_commitment_point without failing the channel", node, from),
								));
							}
							crate::runner::witness("c05-conflicting-point-rejected");
						},
						_ => {},
					}
				}
			}
		}
		Ok(())
	}
}

/// C09 during channel opening: neither `channel_ready` nor the funding transaction leaves a node
/// while the initial persistence of that channel's monitor is still outstanding on it (the oracle
/// learns the channels as they appear, so it can watch an explored opening flow).
#[derive(Default)]
pub struct OpenPersistOracle {
	/// (node, channel) -> initial persist outstanding
	outstanding: BTreeMap<(usize, ChannelId), bool>,
	/// nodes that were restarted (their monitors were loaded from disk, so a missing record means nothing)
	restarted: std::collections::BTreeSet<usize>,
}
impl Oracle for OpenPersistOracle {
	fn name(&self) -> &'static str {
		"open-persist-order"
	}
	fn observe(&mut self, w: &World, obs: &[Obs]) -> Result<(), Failure> {
		for o in obs {
			match o {
				Obs::Persist { node, rec } if rec.new_channel => {
					self.outstanding.insert((*node, rec.chan), rec.in_progress);
					if rec.in_progress {
						crate::runner::witness("c09-open-initial-persist-in-progress");
					}
				},
				Obs::Completed { node, chan, .. } => {
					if let Some(x) = self.outstanding.get_mut(&(*node, *chan)) {
						*x = false;
					}
				},
				Obs::Restarted { node, .. } => {
					self.outstanding.retain(|(n, _), _| n != node);
					self.restarted.insert(*node);
				},
				Obs::Sent { from, wire: Wire::ChannelReady(m), .. } => {
					// deferred mode: a monitor that was never handed to Persist at all is not durable either
					let never_persisted = w.nodes[*from].deferred && !self.restarted.contains(from) && !self.outstanding.contains_key(&(*from, m.channel_id));
					if never_persisted {
						return Err(Failure::new(
							"open-persist-order",
							format!("node {} (deferred ChainMonitor) released channel_ready before the channel's monitor was handed to Persist at all", from),
						));
					}
					if self.outstanding.get(&(*from, m.channel_id)).copied().unwrap_or(false) {
						return Err(Failure::new(
							"open-persist-order",
							format!("node {} released channel_ready while the initial persistence of the channel's monitor had not been reported complete", from),
						));
					}
					crate::runner::witness("c09-open-channel-ready-checked");
				},
				Obs::Broadcast { node, b, .. } if b.kinds.iter().any(|k| k == "Funding") => {
					if w.nodes[*node].deferred && !self.restarted.contains(node) {
						for c in w.nodes[*node].cm.list_channels() {
							let is_this = c.funding_txo.map(|f| b.txs.iter().any(|t| t.compute_txid() == f.txid)).unwrap_or(false);
							if is_this && !self.outstanding.contains_key(&(*node, c.channel_id)) {
								return Err(Failure::new(
									"open-persist-order",
									format!("node {} (deferred ChainMonitor) broadcast the funding transaction before the channel's monitor was handed to Persist at all", node),
								));
							}
						}
					}
					// the funder's channel: the one whose funding transaction this is
					for ((n, cid), out) in self.outstanding.iter() {
						if n == node && *out {
							let is_this = w.nodes[*node].cm.list_channels().iter().any(|c| c.channel_id == *cid && c.funding_txo.map(|f| b.txs.iter().any(|t| t.compute_txid() == f.txid)).unwrap_or(false));
							if is_this {
								return Err(Failure::new(
									"open-persist-order",
									format!("node {} broadcast the funding transaction while the initial persistence of the channel's monitor had not been reported complete", node),
								));
							}
						}
					}
					crate::runner::witness("c09-open-funding-broadcast-checked");
				},
				_ => {},
			}
		}
		Ok(())
	}
}

/// C03: sender-side truthfulness of terminal events and exact debit.
pub struct SenderOracle {
	pub sender: usize,
	pub funds_before: u64,
	pub allow_repeats: bool,
	/// (channel id, real short channel id) of every channel that existed when the oracle was created
	scids: Vec<(ChannelId, u64)>,
}
impl SenderOracle {
	pub fn new(w: &World, sender: usize) -> Self {
		let mut scids = Vec::new();
		for n in w.nodes.iter() {
			for c in n.cm.list_channels() {
				if let Some(s) = c.short_channel_id {
					if !scids.iter().any(|(id, _)| *id == c.channel_id) {
						scids.push((c.channel_id, s));
					}
				}
			}
		}
		SenderOracle { sender, funds_before: offchain_funds_msat(w, sender).0, allow_repeats: false, scids }
	}

	/// "a failed path reports the channel at which the failure occurred": from the wire record, find the
	/// hop over which the deepest failure message for this payment's HTLC travelled back. The node at the
	/// far end of that hop originated the failure (it got none from further down); unless it is the
	/// payee, the channel at which the payment failed is its outgoing channel, the next hop of the path.
	fn check_failed_channel(&self, w: &World, hash: &lightning::types::payment::PaymentHash, path: &lightning::routing::router::Path, reported: Option<u64>) -> Result<(), Failure> {
		let mut hops: Vec<(ChannelId, u64, usize)> = Vec::new();
		for o in w.obs.iter() {
			if let Obs::Sent { from, wire: Wire::Add(m), .. } = o {
				if m.payment_hash == *hash && !hops.iter().any(|(c, i, _)| *c == m.channel_id && *i == m.htlc_id) {
					hops.push((m.channel_id, m.htlc_id, *from));
				}
			}
		}
		if hops.is_empty() || hops[0].2 != self.sender || hops.len() > path.hops.len() {
			return Ok(());
		}
		// several HTLCs of one payment over one channel (retries, MPP) make the attribution ambiguous
		let mut per_chan = std::collections::BTreeSet::new();
		if !hops.iter().all(|(c, _, _)| per_chan.insert(*c)) {
			return Ok(());
		}
		// the recorded channels must be the path's channels, hop by hop
		for (i, (cid, _, _)) in hops.iter().enumerate() {
			match self.scids.iter().find(|(c, _)| c == cid) {
				Some((_, s)) if *s == path.hops[i].short_channel_id => {},
				_ => return Ok(()),
			}
		}
		let mut deepest: Option<usize> = None;
		for o in w.obs.iter() {
			let (cid, hid) = match o {
				Obs::Sent { wire: Wire::Fail(f), .. } => (f.channel_id, f.htlc_id),
				Obs::Sent { wire: Wire::FailMalformed(f), .. } => (f.channel_id, f.htlc_id),
				_ => continue,
			};
			if let Some(idx) = hops.iter().position(|(c, i, _)| *c == cid && *i == hid) {
				deepest = Some(deepest.map(|d: usize| d.max(idx)).unwrap_or(idx));
			}
		}
		let d = match deepest {
			Some(d) => d,
			None => return Ok(()), // failed locally or on chain: no wire record to compare with
		};
		// the sender must have learned of the failure from its peer's message; when it failed the HTLC itself
		// (first-hop channel closed, restart from an older state) the channel it names is its own
		let told = w.obs.iter().any(|o| match o {
			Obs::Delivered { to, wire: Wire::Fail(f), .. } => *to == self.sender && f.channel_id == hops[0].0 && f.htlc_id == hops[0].1,
			Obs::Delivered { to, wire: Wire::FailMalformed(f), .. } => *to == self.sender && f.channel_id == hops[0].0 && f.htlc_id == hops[0].1,
			_ => false,
		});
		let first_hop_closed = w.obs.iter().any(|o| matches!(o, Obs::Event { node, ev: Event::ChannelClosed { channel_id, .. } } if *node == self.sender && *channel_id == hops[0].0));
		let restarted = w.obs.iter().any(|o| matches!(o, Obs::Restarted { node, .. } if *node == self.sender));
		if !told || first_hop_closed || restarted {
			return Ok(());
		}
		if d + 1 == path.hops.len() {
			// the payee itself failed the payment: there is nothing to avoid, or at most the last channel
			if reported.is_none() || reported == Some(path.hops[d].short_channel_id) {
				crate::runner::witness("c03-failed-channel-checked-payee");
				return Ok(());
			}
			return Err(Failure::new("sender-truthful", format!("the payee failed the payment but PaymentPathFailed names channel {:?} (path {:?})", reported, path.hops.iter().map(|h| h.short_channel_id).collect::<Vec<_>>())));
		}
		let expect = path.hops[d + 1].short_channel_id;
		if reported != Some(expect) {
			return Err(Failure::new(
				"sender-truthful",
				format!("the failure originated at hop {} of the path (no failure came back from further down), whose outgoing channel is {}; PaymentPathFailed names {:?}", d + 1, expect, reported),
			));
		}
		crate::runner::witness("c03-failed-channel-checked-intermediate");
		Ok(())
	}
}
impl Oracle for SenderOracle {
	fn name(&self) -> &'static str {
		"sender-truthful"
	}
	fn observe(&mut self, w: &World, obs: &[Obs]) -> Result<(), Failure> {
		use bitcoin::hashes::Hash;
		for o in obs {
			match o {
				Obs::Event { node, ev: Event::PaymentSent { payment_preimage, payment_hash, .. } } if *node == self.sender => {
					let h = bitcoin::hashes::sha256::Hash::hash(&payment_preimage.0).to_byte_array();
					if h != payment_hash.0 {
						return Err(Failure::new("sender-truthful", "PaymentSent preimage does not hash to the payment hash".to_string()));
					}
					match w.payments.iter().find(|p| p.hash == *payment_hash) {
						Some(p) if p.claimed_by_recipient => {},
						_ => return Err(Failure::new("sender-truthful", "PaymentSent although the recipient never released the preimage".to_string())),
					}
				},
				Obs::Event { node, ev: Event::PaymentPathFailed { short_channel_id, payment_hash, payment_failed_permanently, path, .. } } if *node == self.sender => {
					let _ = payment_failed_permanently;
					crate::runner::witness("c03-path-failed-seen");
					self.check_failed_channel(w, payment_hash, path, *short_channel_id)?;
				},
				Obs::Event { node, ev: Event::PaymentFailed { payment_hash: Some(h), .. } } if *node == self.sender => {
					// "a payment none of whose parts was settled is reported PaymentFailed" - not while a part is
					// still in flight (it may yet be claimed)
					let in_flight: usize = w.nodes[self.sender].cm.list_channels().iter().map(|c| c.pending_outbound_htlcs.iter().filter(|x| x.payment_hash == *h).count()).sum();
					if in_flight > 0 {
						return Err(Failure::new("sender-truthful", format!("PaymentFailed reported while {} HTLC(s) of the payment are still pending in the sender's channels", in_flight)));
					}
					crate::runner::witness("c03-payment-failed-with-nothing-in-flight");
				},
				Obs::Api { node, what, ok: true, .. } if *node == self.sender && what == "resend-while-pending" => {
					return Err(Failure::new("sender-truthful", "a second send with the id of a payment still listed as pending was accepted".to_string()));
				},
				_ => {},
			}
		}
		Ok(())
	}
	fn at_end(&mut self, w: &mut World) -> Result<String, Failure> {
		let f = |d: String| Failure::new("sender-truthful", d);
		let mut debit = 0u64;
		let mut label = String::new();
		let mut all_terminal = true;
		for p in w.payments.iter().filter(|p| p.from == self.sender) {
			let sent: Vec<Option<u64>> = w
				.obs
				.iter()
				.filter_map(|o| match o {
					Obs::Event { node, ev: Event::PaymentSent { payment_hash, fee_paid_msat, .. } } if *node == self.sender && *payment_hash == p.hash => Some(*fee_paid_msat),
					_ => None,
				})
				.collect();
			let failed = w.obs.iter().filter(|o| matches!(o, Obs::Event { node, ev: Event::PaymentFailed { payment_hash: Some(h), .. } } if *node == self.sender && *h == p.hash)).count();
			if !p.send_ok {
				if !sent.is_empty() {
					return Err(f("PaymentSent for a payment whose send was refused".into()));
				}
				label.push('x');
				continue;
			}
			if !sent.is_empty() && failed > 0 {
				return Err(f(describe_sent_and_failed(w, self.sender, &p.hash, sent.len(), failed)));
			}
			if !self.allow_repeats && (sent.len() > 1 || failed > 1) {
				return Err(f(format!("terminal event repeated without a restart: PaymentSent x{} PaymentFailed x{}", sent.len(), failed)));
			}
			if p.claimed_by_recipient && sent.is_empty() {
				return Err(f("recipient's claim settled but no PaymentSent".into()));
			}
			if p.failed_by_recipient && failed == 0 {
				let restarted = w.obs.iter().any(|o| matches!(o, Obs::Restarted { node, .. } if *node == self.sender));
				if restarted && !payment_listed_or_in_flight(w, self.sender, &p.id, &p.hash) {
					// restarted from a manager older than the send: the payment is not listed, nothing is in
					// flight and it can never complete – the property asks for nothing more
					label.push('0');
					continue;
				}
				return Err(f("payment failed by recipient but no PaymentFailed".into()));
			}
			if let Some(fee) = sent.first() {
				debit += p.amount_msat + fee.unwrap_or(0);
				label.push('S');
			} else if failed > 0 {
				label.push('F');
			} else {
				// "Once no HTLC of an outbound payment remains pending the sender reports a terminal event"
				let in_flight: usize = w.nodes[self.sender].cm.list_channels().iter().map(|c| c.pending_outbound_htlcs.iter().filter(|x| x.payment_hash == p.hash).count()).sum();
				let on_chain = w.nodes[self.sender].mon.get_claimable_balances(&[]).iter().any(|b| !matches!(b, lightning::chain::channelmonitor::Balance::ClaimableOnChannelClose { .. }));
				let restarted = w.obs.iter().any(|o| matches!(o, Obs::Restarted { node, .. } if *node == self.sender));
				if in_flight == 0 && !on_chain && !restarted {
					return Err(f(format!(
						"no HTLC of the payment is pending in any of the sender's channels (and nothing is left to resolve on chain), yet it saw neither PaymentSent nor PaymentFailed; listed as pending: {}",
						payment_listed_or_in_flight(w, self.sender, &p.id, &p.hash)
					)));
				}
				all_terminal = false;
				label.push('?');
			}
		}
		let (after, pending, _) = offchain_funds_msat(w, self.sender);
		let closed = w.obs.iter().any(|o| matches!(o, Obs::Event { ev: Event::ChannelClosed { .. }, .. }));
		if all_terminal && pending == 0 && !closed {
			// also count what the sender received from others
			let credit: u64 = w
				.payments
				.iter()
				.filter(|p| p.to == self.sender && p.claimed_by_recipient)
				.map(|p| p.amount_msat)
				.sum();
			if after + debit != self.funds_before + credit {
				return Err(f(format!(
					"sender funds: before {} after {} reported debit {} credit {} (must balance exactly)",
					self.funds_before, after, debit, credit
				)));
			}
			crate::runner::witness("c03-sender-debit-exact");
		}
		Ok(label)
	}
}

// -------------------------------------------------------------------------------------------------
/// Every transaction a node broadcasts is consensus-valid and final for the chain the simulator
/// holds when it is broadcast (a transaction that merely lost a race is not a violation), and a
/// replacement for the same outpoints pays a strictly higher absolute fee and feerate (C06/C07).
pub struct TxValidityOracle {
	/// per node: claims broadcast so far (txid, fee, weight, inputs)
	prev: BTreeMap<usize, Vec<(bitcoin::Txid, u64, u64, Vec<bitcoin::OutPoint>)>>,
	pub check_rbf: bool,
}
impl TxValidityOracle {
	pub fn new() -> Self {
		TxValidityOracle { prev: BTreeMap::new(), check_rbf: true }
	}
}
impl Oracle for TxValidityOracle {
	fn name(&self) -> &'static str {
		"broadcast-validity"
	}
	fn observe(&mut self, _w: &World, obs: &[Obs]) -> Result<(), Failure> {
		use crate::chain::Reject;
		for o in obs {
			if let Obs::Broadcast { node, b, admit } = o {
				for (i, r) in admit.iter().enumerate() {
					let tx = &b.txs[i];
					let kind = b.kinds.get(i).cloned().unwrap_or_default();
					if kind == "Funding" {
						continue; // harness-built funding transaction (no inputs)
					}
					match r {
						Ok(fee) => {
							crate::runner::witness("broadcast-admitted");
							if self.check_rbf && kind != "Sweep" {
								let ops: Vec<bitcoin::OutPoint> = tx.input.iter().map(|x| x.previous_output).collect();
								let w = tx.weight().to_wu();
								let txid = tx.compute_txid();
								let list = self.prev.entry(*node).or_default();
								if !list.iter().any(|p| p.0 == txid) {
									// BIP-125 style: a transaction conflicting with one of the node's own earlier, still
									// unconfirmed claims must pay a strictly higher absolute fee and feerate
									for (ptxid, pf, pw, pops) in list.iter() {
										if _w.chain.confirmed.contains_key(ptxid) {
											continue;
										}
										let same_claim = pops.iter().filter(|o| ops.contains(o)).count();
										if same_claim == 0 {
											continue;
										}
										// only judge re-issues of the same claim (same set of channel outpoints; wallet inputs may differ)
										let chan_ops = |v: &Vec<bitcoin::OutPoint>| -> Vec<bitcoin::OutPoint> {
											let mut c: Vec<bitcoin::OutPoint> = v.iter().filter(|o| !_w.nodes.iter().any(|nd| {
												use lightning::util::wallet_utils::WalletSourceSync;
												nd.wallet.list_confirmed_utxos().map(|u| u.iter().any(|x| x.outpoint == **o)).unwrap_or(false)
											})).cloned().collect();
											c.sort();
											c
										};
										if chan_ops(pops) != chan_ops(&ops) {
											continue;
										}
										// A claim funded by wallet inputs is a CPFP child: its own feerate is not the package's, and
										// coin selection may change its weight; only its absolute fee is judged (must not fall).
										let wallet_funded = chan_ops(&ops).len() != ops.len() || chan_ops(pops).len() != pops.len();
										let bad = if wallet_funded {
											*fee < *pf
										} else {
											// the same fee for the same weight is a plain rebroadcast (e.g. re-built with a new
											// nLockTime after a reorganisation): nothing is lowered, nothing replaced
											// an unchanged feerate (within 2 sat/kWU: re-signing changes a DER signature's length and
											// with it weight and fee by a unit) is a plain rebroadcast (e.g. re-built with a new
											// nLockTime after a reorganisation): nothing is lowered, nothing replaced
											let (fr_new, fr_prev) = ((*fee as i128) * 1000 / (w as i128), (*pf as i128) * 1000 / (*pw as i128));
											if (fr_new - fr_prev).abs() <= 2 && (w as i128 - *pw as i128).abs() <= 4 {
												crate::runner::witness("rbf-rebroadcast-same-feerate");
												false
											} else {
												*fee <= *pf || (*fee as u128) * (*pw as u128) <= (*pf as u128) * (w as u128)
											}
										};
										if bad {
											return Err(Failure::new(
												"rbf-monotonic",
												format!(
													"node {} re-issued a still unconfirmed claim with fee {} sat / weight {} after fee {} sat / weight {} (fees must rise monotonically until confirmation)",
													node, fee, w, pf, pw
												),
											));
										}
										crate::runner::witness("rbf-bump-checked");
									}
									list.push((txid, *fee, w, ops));
								}
							}
						},
						Err(Reject::LostRace(..)) | Err(Reject::AlreadyConfirmed) => {
							crate::runner::witness("broadcast-lost-race");
						},
						Err(e) => {
							return Err(Failure::new(
								"broadcast-validity",
								format!(
									"node {} broadcast a {} transaction {} that is not valid/final for the chain it was told about: {:?}",
									node,
									kind,
									tx.compute_txid(),
									e
								),
							));
						},
					}
				}
			}
		}
		Ok(())
	}
}

// -------------------------------------------------------------------------------------------------
/// C07 (and the on-chain ends of C06/C08): after a unilateral close everything a node is entitled
/// to is recovered: balances drain, nothing descending from the funding output is left unclaimed,
/// each HTLC output goes to the party entitled to it, SpendableOutputs are really spendable, and
/// (static channels) each party's recovered value equals its entitlement less its own fees.
pub struct OnChainOracle {
	pub chans: Vec<ChanInfo>,
	/// commitment txid -> (chan, side of broadcaster, info)
	commits: BTreeMap<bitcoin::Txid, (usize, usize, CommitInfo)>,
	keys: BTreeMap<(u8, [u8; 32]), (usize, usize)>,
	/// txid -> node that broadcast it first
	pub broadcaster_of: BTreeMap<bitcoin::Txid, usize>,
	pub max_total_claimable_seen: u64,
	pub exact_entitlement: bool,
}

impl OnChainOracle {
	pub fn new(w: &World, chans: Vec<ChanInfo>) -> Self {
		let mut o = OnChainOracle {
			chans,
			commits: BTreeMap::new(),
			keys: BTreeMap::new(),
			broadcaster_of: BTreeMap::new(),
			max_total_claimable_seen: 0,
			exact_entitlement: true,
		};
		let setup: Vec<Obs> = w.obs.clone();
		o.scan(&setup);
		o
	}
	fn scan(&mut self, obs: &[Obs]) {
		for o in obs {
			match o {
				Obs::Sig(SigEv::SignCounterpartyCommitment { node, keys_id, info }) => {
					let n = (*node - b'A') as usize;
					if !self.keys.contains_key(&(*node, *keys_id)) {
						if let Some(fo) = info.funding_outpoint {
							for ci in 0..self.chans.len() {
								if self.chans[ci].funding == Some(fo) {
									if let Some(s) = self.chans[ci].nodes.iter().position(|x| *x == n) {
										self.keys.insert((*node, *keys_id), (ci, s));
									}
								}
							}
						}
					}
					if let Some((ci, s)) = self.keys.get(&(*node, *keys_id)) {
						// the signer signs the *peer's* commitment: broadcaster side = 1 - s
						self.commits.insert(info.txid, (*ci, 1 - *s, info.clone()));
					}
				},
				Obs::Broadcast { node, b, .. } => {
					for tx in b.txs.iter() {
						self.broadcaster_of.entry(tx.compute_txid()).or_insert(*node);
					}
				},
				_ => {},
			}
		}
	}
}

impl Oracle for OnChainOracle {
	fn name(&self) -> &'static str {
		"on-chain-recovery"
	}
	fn observe(&mut self, w: &World, obs: &[Obs]) -> Result<(), Failure> {
		self.scan(obs);
		// claimable balances never add up to more than the channel is worth (no double counting)
		if obs.iter().any(|o| matches!(o, Obs::Persist { .. })) {
			for ci in 0..self.chans.len() {
				let mut total = 0u64;
				for &n in self.chans[ci].nodes.iter() {
					for b in w.nodes[n].mon.get_claimable_balances(&[]) {
						total += b.claimable_amount_satoshis();
					}
				}
				self.max_total_claimable_seen = self.max_total_claimable_seen.max(total);
				if self.chans.len() == 1 && total > self.chans[ci].params.value_sat {
					return Err(Failure::new(
						"claimable-balances",
						format!("claimable balances of both parties add up to {} sat for a channel worth {} sat", total, self.chans[ci].params.value_sat),
					));
				}
			}
		}
		Ok(())
	}
	fn at_end(&mut self, w: &mut World) -> Result<String, Failure> {
		use lightning::util::wallet_utils::WalletSourceSync;
		let fail = |d: String| Failure::new("on-chain-recovery", d);
		let mut label = String::new();
		for ci in 0..self.chans.len() {
			let fo = match self.chans[ci].funding {
				Some(f) => bitcoin::OutPoint { txid: f.0, vout: f.1 as u32 },
				None => continue,
			};
			let (ctxid, _) = match w.chain.spent_by.get(&fo) {
				Some(x) => *x,
				None => {
					label.push_str("open;");
					continue;
				},
			};
			crate::runner::witness("c07-channel-closed-on-chain");
			// 1. balances drained
			for &n in self.chans[ci].nodes.iter() {
				let bals = w.nodes[n].mon.get_claimable_balances(&[]);
				let left: u64 = bals.iter().map(|b| b.claimable_amount_satoshis()).sum();
				if left > 0 {
					return Err(fail(format!("node {} still reports {} sat of claimable balances after full resolution: {:?}", n, left, bals)));
				}
			}
			// 2. nothing descending from the funding output is left unclaimed
			let sweep: Vec<bitcoin::ScriptBuf> = (0..w.nodes.len()).map(|n| w.sweep_script(n)).collect();
			let wallet: Vec<bitcoin::ScriptBuf> = (0..w.nodes.len()).map(|n| w.nodes[n].wallet.get_change_script().unwrap()).collect();
			let mut desc: std::collections::BTreeSet<bitcoin::Txid> = std::collections::BTreeSet::new();
			desc.insert(ctxid);
			for b in w.chain.blocks.iter() {
				for tx in b.txdata.iter() {
					if tx.input.iter().any(|i| desc.contains(&i.previous_output.txid)) {
						desc.insert(tx.compute_txid());
					}
				}
			}
			let mut recovered = vec![0u64; w.nodes.len()];
			for txid in desc.iter() {
				let tx = &w.chain.tx_store[txid];
				for (v, o) in tx.output.iter().enumerate() {
					let op = bitcoin::OutPoint { txid: *txid, vout: v as u32 };
					if !w.chain.utxos.contains_key(&op) {
						continue; // spent
					}
					if let Some(n) = sweep.iter().position(|s| *s == o.script_pubkey) {
						recovered[n] += o.value.to_sat();
						continue;
					}
					if wallet.iter().any(|s| *s == o.script_pubkey) {
						continue;
					}
					if o.value.to_sat() <= 330 {
						continue; // anchor output left for anyone
					}
					return Err(fail(format!(
						"output {}:{} worth {} sat descending from the channel's funding was never claimed by anybody",
						txid, v, o.value.to_sat()
					)));
				}
			}
			// 3. HTLC outputs of the confirmed commitment went to the entitled party
			if let Some((_, bside, info)) = self.commits.get(&ctxid).cloned() {
				let bnode = self.chans[ci].nodes[bside];
				let onode = self.chans[ci].nodes[1 - bside];
				let mut entitled = vec![0u64; w.nodes.len()];
				let dust = self.chans[ci].params.dust_limit_sat[bside];
				if info.to_broadcaster_sat >= dust {
					entitled[bnode] += info.to_broadcaster_sat;
				}
				if info.to_countersignatory_sat >= dust {
					entitled[onode] += info.to_countersignatory_sat;
				}
				for h in info.htlcs.iter() {
					let (offered_by_broadcaster, amt_msat, _cltv, hash, idx) = (h.0, h.1, h.2, h.3, h.4);
					let idx = match idx {
						Some(i) => i,
						None => continue,
					};
					let offerer = if offered_by_broadcaster { bnode } else { onode };
					let recipient = if offered_by_broadcaster { onode } else { bnode };
					let op = bitcoin::OutPoint { txid: ctxid, vout: idx };
					let spender = match w.chain.spent_by.get(&op) {
						Some((t, _)) => *t,
						None => return Err(fail(format!("HTLC output {} of the confirmed commitment was never spent", idx))),
					};
					let by = self.broadcaster_of.get(&spender).copied();
					let knows = w.payments.iter().any(|p| p.hash.0 == hash && p.claimed_by_recipient);
					let winner = if knows { recipient } else { offerer };
					if by != Some(winner) {
						return Err(fail(format!(
							"HTLC output of {} msat (recipient {} the preimage) was spent by node {:?}, entitled party is node {}",
							amt_msat,
							if knows { "knows" } else { "does not know" },
							by,
							winner
						)));
					}
					entitled[winner] += amt_msat / 1000;
					crate::runner::witness(if knows { "c07-htlc-claimed-with-preimage-on-chain" } else { "c07-htlc-timed-out-on-chain" });
				}
				// 4. static channels: recovered + own fees = entitlement (exactly)
				if self.exact_entitlement && self.chans[ci].params.chan_type == ChanType::StaticRemoteKey {
					for &n in self.chans[ci].nodes.iter() {
						let own_fees: u64 = desc
							.iter()
							.filter(|t| **t != ctxid && self.broadcaster_of.get(*t) == Some(&n) || w.swept_txs.iter().any(|(sn, st)| *sn == n && st.compute_txid() == **t))
							.map(|t| w.chain.fees.get(t).copied().unwrap_or(0))
							.sum();
						if recovered[n] + own_fees != entitled[n] {
							return Err(fail(format!(
								"node {} recovered {} sat and paid {} sat in fees, but was entitled to {} sat of the closed channel",
								n, recovered[n], own_fees, entitled[n]
							)));
						}
					}
					crate::runner::witness("c07-entitlement-exact");
				}
				label.push_str(&format!("closed-by{}:{:?};", bnode, recovered));
			} else {
				label.push_str("closed-coop-or-unknown;");
			}
		}
		Ok(label)
	}
}
