//! C12 oracle: at every explored state, every persisted object survives a write/read round trip.
use crate::sys::Oracle;
use crate::world::{Obs, World};
use lightning::chain::channelmonitor::{ChannelMonitor, ChannelMonitorUpdate};
use lightning::chain::BlockLocator;
use lightning::ln::channelmanager::ChannelManagerReadArgs;
use lightning::ln::types::ChannelId;
use lightning::util::hash_tables::new_hash_map;
use lightning::util::ser::{Readable, ReadableArgs, Writeable};
use lightning::util::test_channel_signer::TestChannelSigner;
use mc_common::explore::Failure;
use std::collections::BTreeMap;
use std::sync::Arc;

pub struct SerdeOracle {
	/// last snapshot bytes seen per (node, channel)
	last: BTreeMap<(usize, ChannelId), Arc<Vec<u8>>>,
	pub monitors_checked: u64,
	pub updates_checked: u64,
	pub managers_checked: u64,
	/// check the manager every n-th step (1 = every state)
	pub manager_every: usize,
	steps: usize,
	/// collected encodings for the truncation / TLV probes (kind, bytes)
	pub corpus: std::sync::Arc<std::sync::Mutex<Vec<(String, Vec<u8>)>>>,
}

fn fail(d: String) -> Failure {
	Failure::new("serialization-roundtrip", d)
}

pub fn read_monitor(w: &World, node: usize, bytes: &[u8]) -> Result<ChannelMonitor<TestChannelSigner>, String> {
	let keys = &w.nodes[node].keys;
	<(BlockLocator, ChannelMonitor<TestChannelSigner>)>::read(&mut &bytes[..], (&**keys, &**keys))
		.map(|x| x.1)
		.map_err(|e| format!("{:?}", e))
}

/// Reads a manager from bytes with freshly read monitors; returns its re-encoding.
pub fn reencode_manager(w: &World, node: usize, bytes: &[u8]) -> Result<Vec<u8>, String> {
	with_reread_manager(w, node, bytes, |m| m.encode())
}

pub fn with_reread_manager<R>(w: &World, node: usize, bytes: &[u8], f: impl FnOnce(&crate::node::CM) -> R) -> Result<R, String> {
	let n = &w.nodes[node];
	let mut monitors = Vec::new();
	for cid in n.mon.list_monitors() {
		let m = n.mon.get_monitor(cid).map_err(|_| "get_monitor".to_string())?;
		let enc = m.encode();
		drop(m);
		monitors.push((cid, read_monitor(w, node, &enc)?));
	}
	let mut refs = new_hash_map();
	for (cid, m) in monitors.iter() {
		refs.insert(*cid, m);
	}
	// a throw-away chain monitor so that nothing touches the live one
	let logger = Arc::new(crate::base::McLogger::new(b'z'));
	let persist = Arc::new(crate::persist::McPersist::new(logger.clone()));
	let bc = Arc::new(crate::base::McBroadcaster::new());
	let cmon: Arc<crate::node::CMon> = Arc::new(lightning::chain::chainmonitor::ChainMonitor::new(
		Some(n.chain_src.clone()),
		bc.clone(),
		logger.clone(),
		n.fee.clone(),
		persist,
		n.keys.clone(),
		lightning::sign::NodeSigner::get_peer_storage_key(&*n.keys),
		false,
	));
	let r = Arc::new(crate::base::NoRouter);
	let args = ChannelManagerReadArgs {
		entropy_source: n.keys.clone(),
		node_signer: n.keys.clone(),
		signer_provider: n.keys.clone(),
		fee_estimator: n.fee.clone(),
		chain_monitor: cmon,
		tx_broadcaster: bc,
		router: r.clone(),
		message_router: r,
		logger,
		config: n.cfg.clone(),
		channel_monitors: refs,
	};
	let m = <(BlockLocator, crate::node::CM)>::read(&mut &bytes[..], args).map_err(|e| format!("{:?}", e))?.1;
	Ok(f(&m))
}

impl SerdeOracle {
	pub fn new(corpus: std::sync::Arc<std::sync::Mutex<Vec<(String, Vec<u8>)>>>) -> Self {
		SerdeOracle { last: BTreeMap::new(), monitors_checked: 0, updates_checked: 0, managers_checked: 0, manager_every: 1, steps: 0, corpus }
	}
	fn keep(&self, kind: &str, bytes: &[u8]) {
		let mut c = self.corpus.lock().unwrap();
		if c.len() < 400 && (c.len() < 40 || c.iter().filter(|x| x.0 == kind).count() < 60) {
			if !c.iter().any(|x| x.1 == bytes) {
				c.push((kind.to_string(), bytes.to_vec()));
			}
		}
	}
}

impl Oracle for SerdeOracle {
	fn name(&self) -> &'static str {
		"serialization-roundtrip"
	}
	fn observe(&mut self, w: &World, obs: &[Obs]) -> Result<(), Failure> {
		self.steps += 1;
		for o in obs {
			if let Obs::Restarted { node, .. } = o {
				let keys: Vec<(usize, ChannelId)> = self.last.keys().filter(|k| k.0 == *node).cloned().collect();
				for k in keys {
					self.last.remove(&k);
				}
			}
			if let Obs::Persist { node, rec } = o {
				// the snapshot written by this Persist call
				let snap = {
					let g = w.nodes[*node].persist.inner.lock().unwrap();
					g.history.iter().rev().find(|(c, s)| *c == rec.chan && s.seq == rec.seq).map(|(_, s)| s.bytes.clone())
				};
				let snap = match snap {
					Some(s) => s,
					None => continue,
				};
				// (a) monitor round trip: read, compare with `==`, re-encode byte-identically
				let m1 = read_monitor(w, *node, &snap).map_err(|e| fail(format!("monitor written by node {} does not read back: {}", node, e)))?;
				// compare with the live monitor it was written from, when that monitor has not moved on since
				let restarted_here = obs.iter().any(|x| matches!(x, Obs::Restarted { node: n, .. } if n == node));
				if let (false, Ok(live)) = (restarted_here, w.nodes[*node].mon.get_monitor(rec.chan)) {
					if live.get_latest_update_id() == m1.get_latest_update_id() && live.current_best_block() == m1.current_best_block() {
						if *live != m1 {
							let fields = live.verif_diff_fields(&m1);
							crate::runner::witness(&format!("c12-live-differs:{:?}", fields));
							// events handed to the manager (or the user) after the write are not a round-trip matter
							let drained_only = fields.iter().all(|f| matches!(*f, "pending_monitor_events" | "pending_events" | "is_processing_pending_events"));
							if drained_only {
								crate::runner::witness("c12-live-monitor-moved-on-after-write");
								self.last.insert((*node, rec.chan), snap);
								continue;
							}
							return Err(Failure::new(
								"monitor-roundtrip-not-equal",
								format!("fields={:?}: monitor of node {} read back from its serialisation is != the monitor it was written from", fields, node),
							));
						}
						crate::runner::witness("c12-monitor-equals-live-after-roundtrip");
					}
				}
				// a second round trip is a fixed point under `==`
				let re = m1.encode();
				let m2 = read_monitor(w, *node, &re).map_err(|e| fail(e))?;
				if m1 != m2 {
					return Err(fail("monitor != itself after a second round trip".into()));
				}
				self.monitors_checked += 1;
				crate::runner::witness("c12-monitor-roundtrip");
				self.keep("monitor", &snap);
				// (b) update round trip, and apply-before/after-round-trip equality
				if let (Some(ub), Some(prev)) = (&rec.update_bytes, self.last.get(&(*node, rec.chan))) {
					let u: ChannelMonitorUpdate =
						Readable::read(&mut &ub[..]).map_err(|e| fail(format!("ChannelMonitorUpdate does not read back: {:?}", e)))?;
					let u2: ChannelMonitorUpdate = Readable::read(&mut &u.encode()[..]).map_err(|e| fail(format!("{:?}", e)))?;
					if u != u2 {
						return Err(fail("ChannelMonitorUpdate != itself after a round trip".into()));
					}
					let before = read_monitor(w, *node, prev).map_err(|e| fail(e))?;
					if before.current_best_block() != m1.current_best_block() || before.get_latest_update_id() + 1 != u.update_id {
						// chain data arrived in between without a write: the previous snapshot is not the state
						// the update was applied to
						self.last.insert((*node, rec.chan), snap);
						continue;
					}
					let n = &w.nodes[*node];
					let sink = crate::base::McBroadcaster::new();
					let applied = before.update_monitor(&u, &&sink, &&*n.fee, &&*n.logger);
					// post-close updates may legitimately return Err while still being applied; compare states anyway
					let _ = applied;
					if before != m1 {
						let fields = before.verif_diff_fields(&m1);
						if fields.iter().all(|f| matches!(*f, "pending_monitor_events" | "pending_events" | "is_processing_pending_events")) {
							// the live monitor's events were handed over between the two writes
							self.last.insert((*node, rec.chan), snap);
							continue;
						}
						return Err(Failure::new(
							"update-apply-after-roundtrip-differs",
							format!(
								"fields={:?}: applying update {} to the previously persisted monitor after a round trip does not give the monitor that was persisted",
								fields, u.update_id
							),
						));
					}
					self.updates_checked += 1;
					crate::runner::witness("c12-update-roundtrip-and-apply");
					self.keep("update", ub);
				}
				self.last.insert((*node, rec.chan), snap);
			}
		}
		// (c) manager: every state (or every n-th)
		if self.steps % self.manager_every == 0 {
			for i in 0..w.nodes.len() {
				let bytes = w.nodes[i].cm.encode();
				let view = manager_view(w, i, &bytes).map_err(|e| fail(format!("manager of node {} does not read back: {}", i, e)))?;
				let live = live_view(w, i);
				if view != live {
					return Err(fail(format!(
						"manager of node {} read back from its serialisation differs observably: live {:?} re-read {:?}",
						i, live, view
					)));
				}
				self.managers_checked += 1;
				self.keep("manager", &bytes);
			}
			crate::runner::witness("c12-manager-roundtrip");
		}
		Ok(())
	}
}

/// Externally observable state that must survive a manager round trip even though writing implies
/// a peer disconnection: the set of channels with their funding, value and counterparty, and the
/// recent-payments list.
pub fn view_of(cm: &crate::node::CM) -> Vec<String> {
	let mut v: Vec<String> = cm
		.list_channels()
		.iter()
		.map(|c| format!("chan {} {:?} {} {} ready={}", c.channel_id, c.funding_txo.map(|o| (o.txid, o.index)), c.channel_value_satoshis, c.counterparty.node_id, c.is_channel_ready))
		.collect();
	v.sort();
	let mut p: Vec<String> = cm
		.list_recent_payments()
		.iter()
		.map(|r| {
			let s = format!("{:?}", r);
			s.split(|c: char| c == ' ' || c == '{').next().unwrap_or("").to_string() + &format!("{:?}", r).matches("payment_id").count().to_string()
		})
		.collect();
	p.sort();
	v.extend(p);
	v
}

pub fn live_view(w: &World, node: usize) -> Vec<String> {
	view_of(&w.nodes[node].cm)
}

pub fn manager_view(w: &World, node: usize, bytes: &[u8]) -> Result<Vec<String>, String> {
	with_reread_manager(w, node, bytes, |m| view_of(m))
}
