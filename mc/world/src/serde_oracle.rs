//! C12 oracle: at every explored state, every persisted object survives a write/read round trip.
use crate::sys::Oracle;
use crate::world::{Obs, World};
use lightning::chain::channelmonitor::{ChannelMonitor, ChannelMonitorUpdate};
use lightning::chain::BlockLocator;
use lightning::ln::channelmanager::ChannelManagerReadArgs;
use lightning::ln::types::ChannelId;
use lightning::util::hash_tables::new_hash_map;
use lightning::util::ser::{Readable, ReadableArgs, Writeable};
use lightning::util::test_channel_signer::TestChannelSigner;
use mc_common::explore::Failure;
use std::collections::BTreeMap;
use std::sync::Arc;

pub struct SerdeOracle {
	/// last snapshot bytes seen per (node, channel)
	last: BTreeMap<(usize, ChannelId), Arc<Vec<u8>>>,
	pub monitors_checked: u64,
	pub updates_checked: u64,
	pub managers_checked: u64,
	/// check the manager every n-th step (1 = every state)
	pub manager_every: usize,
	steps: usize,
	/// collected encodings for the truncation / TLV probes (kind, bytes)
	pub corpus: std::sync::Arc<std::sync::Mutex<Vec<(String, Vec<u8>)>>>,
}

fn fail(d: String) -> Failure {
	Failure::new("serialization-roundtrip", d)
}

pub fn read_monitor(w: &World, node: usize, bytes: &[u8]) -> Result<ChannelMonitor<TestChannelSigner>, String> {
	let keys = &w.nodes[node].keys;
	<(BlockLocator, ChannelMonitor<TestChannelSigner>)>::read(&mut &bytes[..], (&**keys, &**keys))
		.map(|x| x.1)
		.map_err(|e| format!("{:?}", e))
}

/// Reads a manager from bytes with freshly read monitors; returns its re-encoding.
pub fn reencode_manager(w: &World, node: usize, bytes: &[u8]) -> Result<Vec<u8>, String> {
	let n = &w.nodes[node];
	let mut monitors = Vec::new();
	for cid in n.mon.list_monitors() {
		let m = n.mon.get_monitor(cid).map_err(|_| "get_monitor".to_string())?;
		let enc = m.encode();
		drop(m);
		monitors.push((cid, read_monitor(w, node, &enc)?));
	}
	let mut refs = new_hash_map();
	for (cid, m) in monitors.iter() {
		refs.insert(*cid, m);
	}
	// a throw-away chain monitor so that nothing touches the live one
	let logger = Arc::new(crate::base::McLogger::new(b'z'));
	let persist = Arc::new(crate::persist::McPersist::new(logger.clone()));
	let bc = Arc::new(crate::base::McBroadcaster::new());
	let cmon: Arc<crate::node::CMon> = Arc::new(lightning::chain::chainmonitor::ChainMonitor::new(
		Some(n.chain_src.clone()),
		bc.clone(),
		logger.clone(),
		n.fee.clone(),
		persist,
		n.keys.clone(),
		lightning::sign::NodeSigner::get_peer_storage_key(&*n.keys),
		false,
	));
	let r = Arc::new(crate::base::NoRouter);
	let args = ChannelManagerReadArgs {
		entropy_source: n.keys.clone(),
		node_signer: n.keys.clone(),
		signer_provider: n.keys.clone(),
		fee_estimator: n.fee.clone(),
		chain_monitor: cmon,
		tx_broadcaster: bc,
		router: r.clone(),
		message_router: r,
		logger,
		config: n.cfg.clone(),
		channel_monitors: refs,
	};
	let m = <(BlockLocator, crate::node::CM)>::read(&mut &bytes[..], args).map_err(|e| format!("{:?}", e))?.1;
	Ok(m.encode())
}

impl SerdeOracle {
	pub fn new(corpus: std::sync::Arc<std::sync::Mutex<Vec<(String, Vec<u8>)>>>) -> Self {
		SerdeOracle { last: BTreeMap::new(), monitors_checked: 0, updates_checked: 0, managers_checked: 0, manager_every: 1, steps: 0, corpus }
	}
	fn keep(&self, kind: &str, bytes: &[u8]) {
		let mut c = self.corpus.lock().unwrap();
		if c.len() < 400 && (c.len() < 40 || c.iter().filter(|x| x.0 == kind).count() < 60) {
			if !c.iter().any(|x| x.1 == bytes) {
				c.push((kind.to_string(), bytes.to_vec()));
			}
		}
	}
}

impl Oracle for SerdeOracle {
	fn name(&self) -> &'static str {
		"serialization-roundtrip"
	}
	fn observe(&mut self, w: &World, obs: &[Obs]) -> Result<(), Failure> {
		self.steps += 1;
		for o in obs {
			if let Obs::Persist { node, rec } = o {
				// the snapshot written by this Persist call
				let snap = {
					let g = w.nodes[*node].persist.inner.lock().unwrap();
					g.history.iter().rev().find(|(c, s)| *c == rec.chan && s.seq == rec.seq).map(|(_, s)| s.bytes.clone())
				};
				let snap = match snap {
					Some(s) => s,
					None => continue,
				};
				// (a) monitor round trip: read, compare with `==`, re-encode byte-identically
				let m1 = read_monitor(w, *node, &snap).map_err(|e| fail(format!("monitor written by node {} does not read back: {}", node, e)))?;
				let re = m1.encode();
				if re != *snap {
					return Err(fail(format!("monitor of node {} re-encodes differently after a round trip ({} vs {} bytes)", node, re.len(), snap.len())));
				}
				let m2 = read_monitor(w, *node, &re).map_err(|e| fail(e))?;
				if m1 != m2 {
					return Err(fail("monitor != itself after a second round trip".into()));
				}
				self.monitors_checked += 1;
				crate::runner::witness("c12-monitor-roundtrip");
				self.keep("monitor", &snap);
				// (b) update round trip, and apply-before/after-round-trip equality
				if let (Some(ub), Some(prev)) = (&rec.update_bytes, self.last.get(&(*node, rec.chan))) {
					let u: ChannelMonitorUpdate =
						Readable::read(&mut &ub[..]).map_err(|e| fail(format!("ChannelMonitorUpdate does not read back: {:?}", e)))?;
					if u.encode() != *ub {
						return Err(fail("ChannelMonitorUpdate re-encodes differently".into()));
					}
					let before = read_monitor(w, *node, prev).map_err(|e| fail(e))?;
					let n = &w.nodes[*node];
					let sink = crate::base::McBroadcaster::new();
					let applied = before.update_monitor(&u, &&sink, &&*n.fee, &&*n.logger);
					// post-close updates may legitimately return Err while still being applied; compare states anyway
					let _ = applied;
					if before != m1 {
						return Err(fail(format!(
							"applying update {} to the previously persisted monitor after a round trip does not give the monitor that was persisted",
							u.update_id
						)));
					}
					self.updates_checked += 1;
					crate::runner::witness("c12-update-roundtrip-and-apply");
					self.keep("update", ub);
				}
				self.last.insert((*node, rec.chan), snap);
			}
		}
		// (c) manager: every state (or every n-th)
		if self.steps % self.manager_every == 0 {
			for i in 0..w.nodes.len() {
				let bytes = w.nodes[i].cm.encode();
				let re = reencode_manager(w, i, &bytes).map_err(|e| fail(format!("manager of node {} does not read back: {}", i, e)))?;
				if re != bytes {
					// find first difference for the report
					let pos = bytes.iter().zip(re.iter()).position(|(a, b)| a != b).unwrap_or(bytes.len().min(re.len()));
					return Err(fail(format!(
						"manager of node {} re-encodes differently after a round trip ({} vs {} bytes, first difference at offset {})",
						i,
						bytes.len(),
						re.len(),
						pos
					)));
				}
				self.managers_checked += 1;
				self.keep("manager", &bytes);
			}
			crate::runner::witness("c12-manager-roundtrip");
		}
		Ok(())
	}
}
