//! Independent reference models (DESIGN §2.6): BOLT-2 two-phase-commit wire model fed only with
//! delivered messages, and BOLT-3 commitment arithmetic with constants transcribed from the spec
//! (nothing is imported from `chan_utils`).
use std::collections::BTreeMap;

pub const INITIAL_COMMITMENT_NUMBER: u64 = (1 << 48) - 1;

#[derive(Clone, Copy, Debug, PartialEq, Eq)]
pub enum ChanType {
	StaticRemoteKey,
	AnchorsZeroFeeHtlc,
	ZeroFeeCommitments,
}

#[derive(Clone, Debug)]
pub struct ChanParams {
	/// side index (0/1) of the funder
	pub funder: usize,
	pub value_sat: u64,
	pub push_msat: u64,
	/// dust_limit_satoshis announced by side i (applies to side i's own commitment)
	pub dust_limit_sat: [u64; 2],
	pub chan_type: ChanType,
	pub initial_feerate: u32,
}

// ---- BOLT-3 -----------------------------------------------------------------------------------
pub fn commit_weight(t: ChanType, n_untrimmed: usize) -> u64 {
	match t {
		ChanType::StaticRemoteKey => 724 + 172 * n_untrimmed as u64,
		ChanType::AnchorsZeroFeeHtlc => 1124 + 172 * n_untrimmed as u64,
		ChanType::ZeroFeeCommitments => 0,
	}
}
pub fn htlc_timeout_fee(t: ChanType, feerate: u32) -> u64 {
	match t {
		ChanType::StaticRemoteKey => feerate as u64 * 663 / 1000,
		_ => 0,
	}
}
pub fn htlc_success_fee(t: ChanType, feerate: u32) -> u64 {
	match t {
		ChanType::StaticRemoteKey => feerate as u64 * 703 / 1000,
		_ => 0,
	}
}

#[derive(Clone, Debug, PartialEq, Eq)]
pub struct ModelHtlc {
	/// side index of the party that offered (added) it
	pub offerer: usize,
	pub id: u64,
	pub amount_msat: u64,
	pub hash: [u8; 32],
	pub cltv: u32,
}

#[derive(Clone, Debug)]
pub struct ModelCommitment {
	pub owner: usize,
	pub number: u64,
	pub feerate: u32,
	/// balances in msat per side, before fee/anchor deduction
	pub balance_msat: [u64; 2],
	pub htlcs: Vec<ModelHtlc>,
}

#[derive(Clone, Debug, PartialEq, Eq)]
pub struct ExpectedTx {
	/// sorted output values (sat)
	pub outputs: Vec<u64>,
	pub untrimmed: Vec<(bool, u64, [u8; 32])>,
	pub to_local_sat: u64,
	pub to_remote_sat: u64,
	pub fee_sat: u64,
	pub trimmed_sum_msat: u64,
}

/// BOLT-3 commitment construction for `c` (outputs as value multiset).
pub fn expected_tx(p: &ChanParams, c: &ModelCommitment) -> Result<ExpectedTx, String> {
	let owner = c.owner;
	let other = 1 - owner;
	let dust = p.dust_limit_sat[owner];
	let mut untrimmed = Vec::new();
	let mut trimmed_sum_msat = 0u64;
	for h in c.htlcs.iter() {
		let offered_by_owner = h.offerer == owner;
		let fee = if offered_by_owner { htlc_timeout_fee(p.chan_type, c.feerate) } else { htlc_success_fee(p.chan_type, c.feerate) };
		if h.amount_msat / 1000 < dust + fee {
			trimmed_sum_msat += h.amount_msat;
		} else {
			untrimmed.push((offered_by_owner, h.amount_msat, h.hash));
		}
	}
	let fee_sat = c.feerate as u64 * commit_weight(p.chan_type, untrimmed.len()) / 1000;
	let anchors_total = match p.chan_type {
		ChanType::AnchorsZeroFeeHtlc => 660,
		_ => 0,
	};
	let mut bal = [c.balance_msat[0] / 1000, c.balance_msat[1] / 1000];
	let f = p.funder;
	let deduct = fee_sat + anchors_total;
	if bal[f] < deduct {
		return Err(format!("funder balance {} sat cannot pay fee+anchors {}", bal[f], deduct));
	}
	bal[f] -= deduct;
	let mut outputs: Vec<u64> = Vec::new();
	let to_local = bal[owner];
	let to_remote = bal[other];
	let has_local = to_local >= dust;
	let has_remote = to_remote >= dust;
	if has_local {
		outputs.push(to_local);
	}
	if has_remote {
		outputs.push(to_remote);
	}
	for (_, amt, _) in untrimmed.iter() {
		outputs.push(amt / 1000);
	}
	match p.chan_type {
		ChanType::AnchorsZeroFeeHtlc => {
			if has_local || !untrimmed.is_empty() {
				outputs.push(330);
			}
			if has_remote || !untrimmed.is_empty() {
				outputs.push(330);
			}
		},
		_ => {},
	}
	outputs.sort();
	untrimmed.sort();
	Ok(ExpectedTx { outputs, untrimmed, to_local_sat: to_local, to_remote_sat: to_remote, fee_sat, trimmed_sum_msat })
}

// ---- BOLT-2 wire model -------------------------------------------------------------------------
#[derive(Clone, Debug, PartialEq, Eq)]
pub enum Upd {
	Add { id: u64, amount_msat: u64, hash: [u8; 32], cltv: u32 },
	Fulfill { id: u64 },
	Fail { id: u64 },
	Fee { rate: u32 },
}

#[derive(Clone, Debug, PartialEq, Eq)]
pub enum Item {
	Upd(Upd),
	Commit,
	Raa,
}

/// Per channel: what each side has *received* from the other, in order.
#[derive(Clone, Debug)]
pub struct WireModel {
	pub params: ChanParams,
	pub recv: [Vec<Item>; 2],
	/// number of commitment_signed accepted by side i (its commitment number = INITIAL - count)
	pub commits_received: [u64; 2],
}

impl WireModel {
	pub fn new(params: ChanParams) -> Self {
		WireModel { params, recv: [Vec::new(), Vec::new()], commits_received: [0, 0] }
	}

	/// Side `to` received `item` from the other side.
	pub fn on_recv(&mut self, to: usize, item: Item) {
		if item == Item::Commit {
			self.commits_received[to] += 1;
		}
		self.recv[to].push(item);
	}

	/// BOLT-2: on disconnection each side forgets the peer's updates that were not yet covered by
	/// a received commitment_signed.
	pub fn on_disconnect(&mut self) {
		for side in 0..2 {
			while let Some(Item::Upd(_)) = self.recv[side].last() {
				self.recv[side].pop();
			}
		}
	}

	fn updates_before_commit(items: &[Item], k: usize) -> Vec<Upd> {
		// updates appearing before the k-th (1-based) Commit; k = 0 → none
		let mut out = Vec::new();
		if k == 0 {
			return out;
		}
		let mut seen = 0;
		for it in items {
			match it {
				Item::Commit => {
					seen += 1;
					if seen == k {
						return out;
					}
				},
				Item::Upd(u) => out.push(u.clone()),
				Item::Raa => {},
			}
		}
		// fewer than k commits were received: protocol violation by the peer (acked a commitment we never saw)
		out
	}

	/// The commitment of `owner` implied by the most recent commitment_signed it received
	/// (call right after `on_recv(owner, Item::Commit)`).
	pub fn commitment_of(&self, owner: usize) -> Result<ModelCommitment, String> {
		let other = 1 - owner;
		let items = &self.recv[owner];
		let n_commits = items.iter().filter(|i| **i == Item::Commit).count();
		if n_commits == 0 {
			return Err("no commitment received".into());
		}
		// the peer's updates covered: everything before the last commit in recv[owner]
		let peer_updates = Self::updates_before_commit(items, n_commits);
		// number of RAAs the owner had received before that last commit
		let mut raas = 0;
		let mut seen = 0;
		for it in items {
			match it {
				Item::Commit => {
					seen += 1;
					if seen == n_commits {
						break;
					}
				},
				Item::Raa => raas += 1,
				_ => {},
			}
		}
		// the owner's own updates covered: those the peer received before the raas-th commit it received
		let own_updates = Self::updates_before_commit(&self.recv[other], raas);
		self.build(owner, &own_updates, &peer_updates, INITIAL_COMMITMENT_NUMBER - n_commits as u64)
	}

	fn build(&self, owner: usize, own: &[Upd], peer: &[Upd], number: u64) -> Result<ModelCommitment, String> {
		let other = 1 - owner;
		let p = &self.params;
		let mut bal: [i128; 2] = [0, 0];
		bal[p.funder] = (p.value_sat as i128) * 1000 - p.push_msat as i128;
		bal[1 - p.funder] = p.push_msat as i128;
		// HTLCs keyed by (offerer, id)
		let mut htlcs: BTreeMap<(usize, u64), ModelHtlc> = BTreeMap::new();
		let mut feerate = p.initial_feerate;
		for (who, list) in [(owner, own), (other, peer)] {
			for u in list {
				if let Upd::Add { id, amount_msat, hash, cltv } = u {
					bal[who] -= *amount_msat as i128;
					htlcs.insert((who, *id), ModelHtlc { offerer: who, id: *id, amount_msat: *amount_msat, hash: *hash, cltv: *cltv });
				}
			}
		}
		for (who, list) in [(owner, own), (other, peer)] {
			let counterparty = 1 - who;
			for u in list {
				match u {
					Upd::Fulfill { id } => {
						// `who` fulfils an HTLC offered by its counterparty
						match htlcs.remove(&(counterparty, *id)) {
							Some(h) => bal[who] += h.amount_msat as i128,
							None => return Err(format!("fulfil of unknown htlc {} offered by side {}", id, counterparty)),
						}
					},
					Upd::Fail { id } => match htlcs.remove(&(counterparty, *id)) {
						Some(h) => bal[counterparty] += h.amount_msat as i128,
						None => return Err(format!("fail of unknown htlc {} offered by side {}", id, counterparty)),
					},
					Upd::Fee { rate } => {
						if who == p.funder {
							feerate = *rate;
						}
					},
					Upd::Add { .. } => {},
				}
			}
		}
		if bal[0] < 0 || bal[1] < 0 {
			return Err(format!("negative balance in model: {:?}", bal));
		}
		Ok(ModelCommitment {
			owner,
			number,
			feerate,
			balance_msat: [bal[0] as u64, bal[1] as u64],
			htlcs: htlcs.into_values().collect(),
		})
	}
}
