//! Durable-store model behind `chain::chainmonitor::Persist` (DESIGN §2.4).
//!
//! Full-monitor writes overwrite one key per channel. A write answered `Completed` is durable when
//! the call returns; one answered `InProgress` is *in flight*: after a crash the disk may hold the
//! last durable snapshot or any in-flight one (explorer's choice).
use crate::base::McLogger;
use lightning::chain::chainmonitor::Persist;
use lightning::chain::channelmonitor::{ChannelMonitor, ChannelMonitorUpdate};
use lightning::chain::ChannelMonitorUpdateStatus;
use lightning::ln::types::ChannelId;
use lightning::util::persist::MonitorName;
use lightning::util::ser::Writeable;
use lightning::util::test_channel_signer::TestChannelSigner;
use std::collections::{BTreeMap, BTreeSet};
use std::sync::{Arc, Mutex};

#[derive(Clone, Debug)]
pub struct StepKind {
	pub name: &'static str,
	pub number: Option<u64>,
	pub preimage: Option<[u8; 32]>,
}

#[derive(Clone, Debug)]
pub struct PersistRec {
	pub seq: u64,
	pub chan: ChannelId,
	/// `monitor.get_latest_update_id()` after the update was applied.
	pub monitor_update_id: u64,
	/// `update.update_id` when an update was supplied.
	pub update_id: Option<u64>,
	pub new_channel: bool,
	pub steps: Vec<StepKind>,
	pub in_progress: bool,
	/// Holder commitments (counter-signed, accepted) carried by the update.
	pub holder_commits: Vec<crate::base::CommitInfo>,
	/// The `ChannelMonitorUpdate` itself, serialised (for C12 / C19b).
	pub update_bytes: Option<Vec<u8>>,
}

#[derive(Clone, Debug)]
pub struct Snapshot {
	pub monitor_update_id: u64,
	pub bytes: Arc<Vec<u8>>,
	/// false for chain-sync writes (no completion callback exists for them)
	pub needs_completion: bool,
	pub seq: u64,
}

#[derive(Clone, Debug, Default)]
pub struct ChanDisk {
	pub durable: Option<Snapshot>,
	pub inflight: Vec<Snapshot>,
	/// update ids answered InProgress and not yet completed through `channel_monitor_updated`
	pub outstanding: Vec<u64>,
	pub archived: bool,
}

#[derive(Default)]
pub struct PersistInner {
	pub async_all: bool,
	/// the store turns asynchronous after answering this many more calls synchronously
	pub async_after: Option<u32>,
	pub async_chans: BTreeSet<ChannelId>,
	pub disk: BTreeMap<ChannelId, ChanDisk>,
	pub log: Vec<PersistRec>,
	pub seq: u64,
	/// Crash injection: unwind at the k-th persist call from now (0 = next one); `true` = after
	/// recording the write (the write reached the disk), `false` = before.
	pub crash_inside: Option<(u32, bool)>,
	/// Keep every monitor snapshot ever written (for C06 fork points / C12); off by default.
	pub keep_history: bool,
	pub history: Vec<(ChannelId, Snapshot)>,
	pub keep_update_bytes: bool,
}

/// A second `Persist` implementation that sees every call as well (C19b: the real
/// `MonitorUpdatingPersister` over a fault-injecting store), plus a probe returning the length of that
/// store's operation log after the call.
pub struct Mirror {
	pub persist: Box<dyn Persist<TestChannelSigner> + Send + Sync>,
	pub log_len: Box<dyn Fn() -> usize + Send + Sync>,
}

#[derive(Clone, Debug)]
pub struct MirrorRec {
	pub monitor_update_id: u64,
	pub update_id: Option<u64>,
	pub completed: bool,
	pub log_len_after: usize,
	pub seq: u64,
}

pub struct McPersist {
	pub inner: Mutex<PersistInner>,
	pub logger: Arc<McLogger>,
	pub mirror: Mutex<Option<Mirror>>,
	pub mirror_log: Mutex<Vec<MirrorRec>>,
}

/// When set, every persister keeps all snapshots and the serialised updates (C12 / C06 need them).
pub static KEEP_ALL: std::sync::atomic::AtomicBool = std::sync::atomic::AtomicBool::new(false);

/// Payload of the panic used to model a crash in the middle of a handler.
pub struct CrashNow;

impl McPersist {
	pub fn new(logger: Arc<McLogger>) -> Self {
		let mut inner = PersistInner::default();
		if KEEP_ALL.load(std::sync::atomic::Ordering::Relaxed) {
			inner.keep_history = true;
			inner.keep_update_bytes = true;
		}
		McPersist { inner: Mutex::new(inner), logger, mirror: Mutex::new(None), mirror_log: Mutex::new(Vec::new()) }
	}

	fn record(
		&self, new_channel: bool, update: Option<&ChannelMonitorUpdate>, m: &ChannelMonitor<TestChannelSigner>,
	) -> ChannelMonitorUpdateStatus {
		let own = self.record_inner(new_channel, update, m);
		let g = self.mirror.lock().unwrap();
		if let Some(mir) = g.as_ref() {
			let name = m.persistence_key();
			let st = if new_channel { mir.persist.persist_new_channel(name, m) } else { mir.persist.update_persisted_channel(name, update, m) };
			let completed = matches!(st, ChannelMonitorUpdateStatus::Completed);
			self.mirror_log.lock().unwrap().push(MirrorRec {
				monitor_update_id: m.get_latest_update_id(),
				update_id: update.map(|u| u.update_id),
				completed,
				log_len_after: (mir.log_len)(),
				seq: crate::base::next_seq(),
			});
			if let ChannelMonitorUpdateStatus::UnrecoverableError = st {
				return st;
			}
		}
		own
	}

	fn record_inner(
		&self, new_channel: bool, update: Option<&ChannelMonitorUpdate>, m: &ChannelMonitor<TestChannelSigner>,
	) -> ChannelMonitorUpdateStatus {
		let chan = m.channel_id();
		let mut g = self.inner.lock().unwrap();
		if let Some((k, after)) = g.crash_inside {
			if k == 0 && !after {
				g.crash_inside = None;
				drop(g);
				std::panic::resume_unwind(Box::new(CrashNow));
			}
		}
		if let Some(k) = g.async_after {
			if k == 0 {
				g.async_all = true;
				g.async_after = None;
			} else {
				g.async_after = Some(k - 1);
			}
		}
		let in_progress = g.async_all || g.async_chans.contains(&chan);
		let seq = crate::base::next_seq();
		g.seq = seq + 1;
		let bytes = Arc::new(m.encode());
		let snap = Snapshot {
			monitor_update_id: m.get_latest_update_id(),
			bytes,
			needs_completion: in_progress && (update.is_some() || new_channel),
			seq,
		};
		if g.keep_history {
			g.history.push((chan, snap.clone()));
		}
		let keep_bytes = g.keep_update_bytes;
		let d = g.disk.entry(chan).or_default();
		if in_progress {
			if update.is_some() || new_channel {
				d.outstanding.push(snap.monitor_update_id);
			}
			d.inflight.push(snap);
		} else {
			// A completed full-monitor write supersedes everything in flight before it.
			d.durable = Some(snap);
			d.inflight.clear();
		}
		let steps = update
			.map(|u| {
				u.verif_step_kinds()
					.into_iter()
					.map(|(name, number, preimage)| StepKind { name, number, preimage })
					.collect()
			})
			.unwrap_or_default();
		g.log.push(PersistRec {
			seq,
			chan,
			monitor_update_id: m.get_latest_update_id(),
			update_id: update.map(|u| u.update_id),
			new_channel,
			steps,
			in_progress,
			holder_commits: update
				.map(|u| {
					u.verif_holder_commitment_txs()
						.iter()
						.map(|h| crate::base::commit_info_basic(&*h, h.counterparty_htlc_sigs.len()))
						.collect()
				})
				.unwrap_or_default(),
			update_bytes: if keep_bytes { update.map(|u| u.encode()) } else { None },
		});
		if let Some((k, after)) = g.crash_inside {
			if k == 0 && after {
				g.crash_inside = None;
				drop(g);
				std::panic::resume_unwind(Box::new(CrashNow));
			}
			g.crash_inside = Some((k - 1, after));
		}
		if in_progress {
			ChannelMonitorUpdateStatus::InProgress
		} else {
			ChannelMonitorUpdateStatus::Completed
		}
	}

	/// Harness bookkeeping for `ChainMonitor::channel_monitor_updated(chan, id)`: the snapshot of
	/// that id (or the latest in-flight one at least as new) becomes durable.
	pub fn mark_completed(&self, chan: ChannelId, id: u64) {
		let mut g = self.inner.lock().unwrap();
		if let Some(d) = g.disk.get_mut(&chan) {
			d.outstanding.retain(|x| *x != id);
			// the write for `id` has landed; later in-flight writes may or may not have
			if let Some(pos) = d.inflight.iter().position(|s| s.needs_completion && s.monitor_update_id == id) {
				let snap = d.inflight[pos].clone();
				let newer = d.durable.as_ref().map(|x| x.seq < snap.seq).unwrap_or(true);
				if newer {
					d.durable = Some(snap);
				}
				let dseq = d.durable.as_ref().map(|x| x.seq).unwrap_or(0);
				d.inflight.retain(|s| s.seq > dseq);
			}
		}
	}

	pub fn outstanding(&self) -> Vec<(ChannelId, u64)> {
		let g = self.inner.lock().unwrap();
		let mut v = Vec::new();
		for (c, d) in g.disk.iter() {
			for id in d.outstanding.iter() {
				v.push((*c, *id));
			}
		}
		v
	}

	pub fn take_log(&self) -> Vec<PersistRec> {
		std::mem::take(&mut self.inner.lock().unwrap().log)
	}

	pub fn set_async_all(&self, on: bool) {
		self.inner.lock().unwrap().async_all = on;
	}

	/// The store answers `k` more calls synchronously and `InProgress` from then on.
	pub fn set_async_after(&self, k: u32) {
		self.inner.lock().unwrap().async_after = Some(k);
	}

	/// All candidate on-disk monitor states per channel after a crash *now*:
	/// index 0 = last durable, then each in-flight snapshot in write order.
	pub fn crash_candidates(&self) -> BTreeMap<ChannelId, Vec<Snapshot>> {
		let g = self.inner.lock().unwrap();
		let mut out = BTreeMap::new();
		for (c, d) in g.disk.iter() {
			if d.archived {
				continue;
			}
			let mut v = Vec::new();
			if let Some(s) = &d.durable {
				v.push(s.clone());
			}
			for s in d.inflight.iter() {
				v.push(s.clone());
			}
			if !v.is_empty() {
				out.insert(*c, v);
			}
		}
		out
	}

	/// After a restart the chosen snapshot is what is on disk; nothing is in flight any more and
	/// the persister answers Completed again (the contract allows InProgress→Completed only here).
	pub fn reset_after_restart(&self, chosen: &BTreeMap<ChannelId, Snapshot>) {
		let mut g = self.inner.lock().unwrap();
		g.async_all = false;
		g.async_after = None;
		g.async_chans.clear();
		g.crash_inside = None;
		for (c, d) in g.disk.iter_mut() {
			d.inflight.clear();
			d.outstanding.clear();
			if let Some(s) = chosen.get(c) {
				d.durable = Some(s.clone());
			}
		}
	}
}

impl Persist<TestChannelSigner> for McPersist {
	fn persist_new_channel(&self, _n: MonitorName, m: &ChannelMonitor<TestChannelSigner>) -> ChannelMonitorUpdateStatus {
		self.record(true, None, m)
	}
	fn update_persisted_channel(
		&self, _n: MonitorName, u: Option<&ChannelMonitorUpdate>, m: &ChannelMonitor<TestChannelSigner>,
	) -> ChannelMonitorUpdateStatus {
		self.record(false, u, m)
	}
	fn archive_persisted_channel(&self, n: MonitorName) {
		let _ = n;
		// The monitor is fully resolved; keep the bytes (archiving never deletes) but stop offering it
		// for reload. MonitorName → ChannelId mapping is not needed by any scenario that archives.
	}
}
