//! Chain simulator (DESIGN §2.5): a best chain of blocks with a UTXO set and confirmation
//! heights, a mempool, consensus script verification (libbitcoinconsensus), nLockTime / BIP-68
//! finality, value conservation, and reorg support with per-block undo data.
use bitcoin::absolute::LockTime;
use bitcoin::block::{Header, Version as BlockVersion};
use bitcoin::hashes::Hash;
use bitcoin::{Block, BlockHash, CompactTarget, OutPoint, Sequence, Transaction, TxMerkleNode, TxOut, Txid};
use std::collections::{BTreeMap, HashMap};

#[derive(Clone, Debug)]
pub struct Utxo {
	pub out: TxOut,
	pub height: u32,
}

#[derive(Clone, Debug, PartialEq, Eq)]
pub enum Reject {
	/// An input does not exist and was never seen (not a lost race: a bug in whoever built the tx).
	UnknownInput(OutPoint),
	/// An input was spent by a transaction that is already confirmed (a lost race, legitimate).
	LostRace(OutPoint, Txid),
	Script(usize, String),
	NonFinal(String),
	ValueOut { input: u64, output: u64 },
	AlreadyConfirmed,
	NoInputs,
}

#[derive(Clone, Debug, Default)]
struct Undo {
	created: Vec<OutPoint>,
	spent: Vec<(OutPoint, Utxo)>,
	txids: Vec<Txid>,
}

pub struct ChainSim {
	pub blocks: Vec<Block>,
	undo: Vec<Undo>,
	pub utxos: HashMap<OutPoint, Utxo>,
	/// confirmed spender of an outpoint: (spending txid, height)
	pub spent_by: HashMap<OutPoint, (Txid, u32)>,
	/// confirmed transactions -> height
	pub confirmed: HashMap<Txid, u32>,
	pub tx_store: HashMap<Txid, Transaction>,
	/// admitted, unconfirmed transactions in admission order (conflicts may coexist)
	pub mempool: Vec<Transaction>,
	/// total fees of confirmed non-trusted transactions, per txid
	pub fees: BTreeMap<Txid, u64>,
	pub header_time: u32,
	/// transactions dropped from the mempool because they (or an ancestor) conflict with a confirmed spend
	pub evicted: std::collections::HashSet<Txid>,
}

pub fn genesis() -> Block {
	bitcoin::blockdata::constants::genesis_block(crate::node::NETWORK)
}

impl ChainSim {
	pub fn new() -> Self {
		let g = genesis();
		ChainSim {
			header_time: g.header.time,
			blocks: vec![g],
			undo: vec![Undo::default()],
			utxos: HashMap::new(),
			spent_by: HashMap::new(),
			confirmed: HashMap::new(),
			tx_store: HashMap::new(),
			mempool: Vec::new(),
			fees: BTreeMap::new(),
			evicted: Default::default(),
		}
	}
	pub fn height(&self) -> u32 {
		(self.blocks.len() - 1) as u32
	}
	pub fn tip_hash(&self) -> BlockHash {
		self.blocks.last().unwrap().header.block_hash()
	}

	fn make_header(&self, prev: BlockHash, height: u32, salt: u32) -> Header {
		Header {
			version: BlockVersion::NO_SOFT_FORK_SIGNALLING,
			prev_blockhash: prev,
			merkle_root: TxMerkleNode::all_zeros(),
			time: self.header_time + height * 600,
			bits: CompactTarget::from_consensus(42),
			nonce: 42 + salt,
		}
	}

	/// Looks up a spendable output: confirmed UTXO, or an output of a mempool / supplied parent.
	fn lookup(&self, op: &OutPoint, parents: &[&Transaction]) -> Option<(TxOut, Option<u32>)> {
		if let Some(u) = self.utxos.get(op) {
			return Some((u.out.clone(), Some(u.height)));
		}
		for p in parents.iter().copied().chain(self.mempool.iter()) {
			if p.compute_txid() == op.txid {
				return p.output.get(op.vout as usize).map(|o| (o.clone(), None));
			}
		}
		None
	}

	/// Full admission check of `tx` against the current tip (as if it were to be mined in the next
	/// block). Returns the fee.
	pub fn check_tx(&self, tx: &Transaction, parents: &[&Transaction]) -> Result<u64, Reject> {
		let txid = tx.compute_txid();
		if self.confirmed.contains_key(&txid) {
			return Err(Reject::AlreadyConfirmed);
		}
		if tx.input.is_empty() {
			return Err(Reject::NoInputs);
		}
		let next_height = self.height() + 1;
		let mut in_val = 0u64;
		let mut spent_outs: Vec<TxOut> = Vec::new();
		for (i, inp) in tx.input.iter().enumerate() {
			let (out, conf) = match self.lookup(&inp.previous_output, parents) {
				Some(x) => x,
				None => {
					if let Some((sp, _)) = self.spent_by.get(&inp.previous_output) {
						return Err(Reject::LostRace(inp.previous_output, *sp));
					}
					if self.evicted.contains(&inp.previous_output.txid) {
						// the parent lost a race against a confirmed transaction
						return Err(Reject::LostRace(inp.previous_output, inp.previous_output.txid));
					}
					return Err(Reject::UnknownInput(inp.previous_output));
				},
			};
			in_val += out.value.to_sat();
			// BIP 68
			if tx.version.0 >= 2 && inp.sequence.is_relative_lock_time() {
				if let Some(rl) = inp.sequence.to_relative_lock_time() {
					match rl {
						bitcoin::relative::LockTime::Blocks(h) => {
							let need = h.value() as u32;
							match conf {
								Some(ch) => {
									if next_height < ch + need {
										return Err(Reject::NonFinal(format!(
											"input {} needs {} confirmations of its parent (conf height {}, next height {})",
											i, need, ch, next_height
										)));
									}
								},
								None => {
									if need > 0 {
										return Err(Reject::NonFinal(format!(
											"input {} has relative lock {} on an unconfirmed parent",
											i, need
										)));
									}
								},
							}
						},
						bitcoin::relative::LockTime::Time(_) => {
							return Err(Reject::NonFinal("time-based relative lock".into()));
						},
					}
				}
			}
			spent_outs.push(out);
		}
		// nLockTime
		if tx.input.iter().any(|i| i.sequence != Sequence::MAX) {
			match tx.lock_time {
				LockTime::Blocks(h) => {
					if h.to_consensus_u32() >= next_height {
						return Err(Reject::NonFinal(format!(
							"nLockTime {} not reached (next block height {})",
							h.to_consensus_u32(),
							next_height
						)));
					}
				},
				LockTime::Seconds(t) => {
					// commitment transactions encode the obscured commitment number here (0x20...)
					if t.to_consensus_u32() >= self.header_time + next_height * 600 {
						return Err(Reject::NonFinal("time nLockTime in the future".into()));
					}
				},
			}
		}
		let out_val: u64 = tx.output.iter().map(|o| o.value.to_sat()).sum();
		if out_val > in_val {
			return Err(Reject::ValueOut { input: in_val, output: out_val });
		}
		// scripts
		let mut idx = 0usize;
		let res = tx.verify(|_op| {
			let o = spent_outs.get(idx).cloned();
			idx += 1;
			o
		});
		if let Err(e) = res {
			return Err(Reject::Script(0, format!("{:?}", e)));
		}
		Ok(in_val - out_val)
	}

	/// Admits a transaction (or a child-with-parents package) into the mempool if valid.
	pub fn admit_package(&mut self, txs: &[Transaction]) -> Vec<Result<u64, Reject>> {
		let mut res = Vec::new();
		for (i, tx) in txs.iter().enumerate() {
			let parents: Vec<&Transaction> = txs[..i].iter().collect();
			let r = self.check_tx(tx, &parents);
			if r.is_ok() {
				let txid = tx.compute_txid();
				if !self.mempool.iter().any(|m| m.compute_txid() == txid) {
					self.mempool.push(tx.clone());
				}
			}
			res.push(r);
		}
		res
	}

	/// Mines a block containing `txs` in the given order. `trusted` transactions (harness wallet
	/// funding, zero-input coin creation) skip validation. Returns the new height.
	pub fn mine(&mut self, txs: Vec<Transaction>, trusted: bool) -> Result<u32, (Txid, Reject)> {
		let height = self.height() + 1;
		let mut undo = Undo::default();
		let mut included: Vec<Transaction> = Vec::new();
		for tx in txs.into_iter() {
			let txid = tx.compute_txid();
			if !trusted {
				let parents: Vec<&Transaction> = Vec::new();
				match self.check_tx(&tx, &parents) {
					Ok(fee) => {
						self.fees.insert(txid, fee);
					},
					Err(e) => {
						// roll back what this partial block did
						self.apply_undo(undo);
						return Err((txid, e));
					},
				}
			}
			for inp in tx.input.iter() {
				if let Some(u) = self.utxos.remove(&inp.previous_output) {
					undo.spent.push((inp.previous_output, u));
					self.spent_by.insert(inp.previous_output, (txid, height));
				}
			}
			for (v, o) in tx.output.iter().enumerate() {
				let op = OutPoint { txid, vout: v as u32 };
				self.utxos.insert(op, Utxo { out: o.clone(), height });
				undo.created.push(op);
			}
			self.confirmed.insert(txid, height);
			self.tx_store.insert(txid, tx.clone());
			undo.txids.push(txid);
			included.push(tx);
		}
		let header = self.make_header(self.tip_hash(), height, 0);
		self.blocks.push(Block { header, txdata: included });
		self.undo.push(undo);
		// drop mempool entries that are now confirmed or conflict with confirmed spends
		self.evict();
		Ok(height)
	}

	fn apply_undo(&mut self, u: Undo) {
		for op in u.created {
			self.utxos.remove(&op);
		}
		for (op, ut) in u.spent {
			self.utxos.insert(op, ut);
			self.spent_by.remove(&op);
		}
		for t in u.txids {
			self.confirmed.remove(&t);
			self.fees.remove(&t);
		}
	}

	/// Drops mempool transactions that conflict with confirmed spends or whose parents can no longer
	/// exist (neither confirmed nor in the mempool).
	pub fn evict(&mut self) {
		loop {
			let before = self.mempool.len();
			let ids: std::collections::HashSet<Txid> = self.mempool.iter().map(|m| m.compute_txid()).collect();
			let confirmed = &self.confirmed;
			let spent_by = &self.spent_by;
			let utxos = &self.utxos;
			let evicted = &mut self.evicted;
			self.mempool.retain(|m| {
				if confirmed.contains_key(&m.compute_txid()) {
					return false;
				}
				let keep = m.input.iter().all(|i| {
					if spent_by.contains_key(&i.previous_output) {
						return false;
					}
					utxos.contains_key(&i.previous_output) || ids.contains(&i.previous_output.txid)
				});
				if !keep {
					evicted.insert(m.compute_txid());
				}
				keep
			});
			if self.mempool.len() == before {
				break;
			}
		}
	}

	/// Disconnects the tip block; its transactions return to the mempool. Returns the block.
	pub fn disconnect_tip(&mut self) -> Block {
		assert!(self.blocks.len() > 1);
		let b = self.blocks.pop().unwrap();
		let u = self.undo.pop().unwrap();
		self.apply_undo(u);
		for tx in b.txdata.iter() {
			if !tx.input.is_empty() {
				self.mempool.push(tx.clone());
			}
		}
		b
	}

	/// Mines a block on top of the current tip whose header differs from `avoid` (used to build a
	/// competing fork at the same height).
	pub fn mine_with_salt(&mut self, txs: Vec<Transaction>, salt: u32) -> Result<u32, (Txid, Reject)> {
		let h = self.mine(txs, false)?;
		let prev = self.blocks[(h - 1) as usize].header.block_hash();
		let header = self.make_header(prev, h, salt);
		self.blocks[h as usize].header = header;
		Ok(h)
	}

	/// The subset of the mempool that can be mined now, greedily in admission order, skipping
	/// conflicts with earlier picks and transactions that are not (yet) valid.
	pub fn minable(&self, prefer: &dyn Fn(&Transaction) -> i32) -> Vec<Transaction> {
		let mut cands: Vec<&Transaction> = self.mempool.iter().collect();
		cands.sort_by_key(|t| -prefer(t));
		let mut picked: Vec<Transaction> = Vec::new();
		let mut used: std::collections::HashSet<OutPoint> = std::collections::HashSet::new();
		let mut progress = true;
		while progress {
			progress = false;
			for c in cands.iter() {
				let txid = c.compute_txid();
				if picked.iter().any(|p| p.compute_txid() == txid) {
					continue;
				}
				if c.input.iter().any(|i| used.contains(&i.previous_output)) {
					continue;
				}
				let parents: Vec<&Transaction> = picked.iter().collect();
				// parents picked for this block count as confirmed at next height for BIP68(0) only
				if self.check_tx_in_block(c, &parents).is_ok() {
					for i in c.input.iter() {
						used.insert(i.previous_output);
					}
					picked.push((*c).clone());
					progress = true;
				}
			}
		}
		picked
	}

	fn check_tx_in_block(&self, tx: &Transaction, parents: &[&Transaction]) -> Result<u64, Reject> {
		// only parents *in this block* may be unconfirmed
		for inp in tx.input.iter() {
			if !self.utxos.contains_key(&inp.previous_output)
				&& !parents.iter().any(|p| p.compute_txid() == inp.previous_output.txid)
			{
				if let Some((sp, _)) = self.spent_by.get(&inp.previous_output) {
					return Err(Reject::LostRace(inp.previous_output, *sp));
				}
				return Err(Reject::UnknownInput(inp.previous_output));
			}
		}
		// temporarily ignore the rest of the mempool by passing explicit parents
		let saved: Vec<Transaction> = Vec::new();
		let _ = saved;
		self.check_tx(tx, parents)
	}

	/// Mines the current minable mempool subset (miner's default choice).
	pub fn mine_mempool(&mut self) -> u32 {
		let txs = self.minable(&|_| 0);
		self.mine_ordered(txs)
	}

	pub fn mine_ordered(&mut self, txs: Vec<Transaction>) -> u32 {
		// transactions were validated by `minable`; mine them one by one so in-block parents are
		// visible to their children
		let height = self.height() + 1;
		let mut undo = Undo::default();
		let mut included = Vec::new();
		for tx in txs {
			let txid = tx.compute_txid();
			let in_val: u64 = tx
				.input
				.iter()
				.map(|i| self.utxos.get(&i.previous_output).map(|u| u.out.value.to_sat()).unwrap_or(0))
				.sum();
			let out_val: u64 = tx.output.iter().map(|o| o.value.to_sat()).sum();
			self.fees.insert(txid, in_val.saturating_sub(out_val));
			for inp in tx.input.iter() {
				if let Some(u) = self.utxos.remove(&inp.previous_output) {
					undo.spent.push((inp.previous_output, u));
					self.spent_by.insert(inp.previous_output, (txid, height));
				}
			}
			for (v, o) in tx.output.iter().enumerate() {
				let op = OutPoint { txid, vout: v as u32 };
				self.utxos.insert(op, Utxo { out: o.clone(), height });
				undo.created.push(op);
			}
			self.confirmed.insert(txid, height);
			self.tx_store.insert(txid, tx.clone());
			undo.txids.push(txid);
			included.push(tx);
		}
		let header = self.make_header(self.tip_hash(), height, 0);
		self.blocks.push(Block { header, txdata: included });
		self.undo.push(undo);
		self.evict();
		height
	}
}
