//! Harness-side implementations of LDK's environment traits: logger, (null) router, broadcaster,
//! and the *recording* signer installed through `test_utils::SIGNER_FACTORY`.
use bitcoin::secp256k1::ecdsa::Signature;
use bitcoin::secp256k1::{self, PublicKey, Secp256k1, SecretKey};
use bitcoin::{ScriptBuf, Transaction, TxOut, Txid};
use lightning::blinded_path::message::{BlindedMessagePath, MessageContext, MessageForwardNode};
use lightning::blinded_path::payment::{BlindedPaymentPath, ReceiveTlvs};
use lightning::chain::chaininterface::{BroadcasterInterface, TransactionType};
use lightning::ln::chan_utils::{
	ChannelPublicKeys, ChannelTransactionParameters, ClosingTransaction, CommitmentTransaction,
	HTLCOutputInCommitment, HolderCommitmentTransaction,
};
use lightning::ln::channel_state::ChannelDetails;
use lightning::ln::inbound_payment::ExpandedKey;
use lightning::ln::msgs::{UnsignedChannelAnnouncement, UnsignedGossipMessage};
use lightning::ln::script::ShutdownScript;
use lightning::onion_message::messenger::{Destination, MessageRouter, OnionMessagePath};
use lightning::routing::router::{InFlightHtlcs, Route, RouteParameters, Router};
use lightning::sign::ecdsa::EcdsaChannelSigner;
use lightning::sign::{
	ChannelSigner, EntropySource, HTLCDescriptor, InMemorySigner, KeysManager, NodeSigner, OutputSpender,
	PeerStorageKey, ReceiveAuthKey, Recipient, SignerProvider, SpendableOutputDescriptor,
};
use lightning::types::payment::PaymentPreimage;
use lightning::util::dyn_signer::{DynKeysInterfaceTrait, DynSigner, DynSignerTrait, InnerSign};
use lightning::util::logger::{Logger, Record};
use lightning::util::test_utils::{TestSignerFactory, SIGNER_FACTORY};
use std::cell::RefCell;
use std::collections::VecDeque;
use std::sync::{Arc, Mutex};
use std::time::Duration;

// ---------------------------------------------------------------------------------------------
// Logger: ring buffer of the last records, attached to violation reports.
pub struct McLogger {
	pub tag: u8,
	pub ring: Mutex<VecDeque<String>>,
	pub keep: usize,
}
impl McLogger {
	pub fn new(tag: u8) -> Self {
		McLogger { tag, ring: Mutex::new(VecDeque::new()), keep: if std::env::var("MC_LOG").is_ok() { 400 } else { 0 } }
	}
	pub fn dump(&self) -> Vec<String> {
		self.ring.lock().unwrap().iter().cloned().collect()
	}
}
impl Logger for McLogger {
	fn log(&self, r: Record) {
		if self.keep == 0 {
			return;
		}
		if std::env::var("MC_LOG").map(|v| v == "print").unwrap_or(false) {
			eprintln!("      [{}] {:?} {}:{} {}", self.tag as char, r.level, r.module_path, r.line, r.args);
			return;
		}
		let mut g = self.ring.lock().unwrap();
		if g.len() >= self.keep {
			g.pop_front();
		}
		g.push_back(format!("[{}] {:?} {}:{} {}", self.tag as char, r.level, r.module_path, r.line, r.args));
	}
}

// ---------------------------------------------------------------------------------------------
// Router: all payments carry explicit routes, the router is out of the loop.
pub struct NoRouter;
impl Router for NoRouter {
	fn find_route(
		&self, _p: &PublicKey, _r: &RouteParameters, _f: Option<&[&ChannelDetails]>, _i: InFlightHtlcs,
	) -> Result<Route, &'static str> {
		Err("no router in the closed world")
	}
	fn create_blinded_payment_paths<T: secp256k1::Signing + secp256k1::Verification>(
		&self, _r: PublicKey, _k: ReceiveAuthKey, _f: Vec<ChannelDetails>, _t: ReceiveTlvs, _a: Option<u64>,
		_s: &Secp256k1<T>,
	) -> Result<Vec<BlindedPaymentPath>, ()> {
		Err(())
	}
}
impl MessageRouter for NoRouter {
	fn find_path(&self, _s: PublicKey, _p: Vec<PublicKey>, _d: Destination) -> Result<OnionMessagePath, ()> {
		Err(())
	}
	fn create_blinded_paths<T: secp256k1::Signing + secp256k1::Verification>(
		&self, _r: PublicKey, _k: ReceiveAuthKey, _c: MessageContext, _p: Vec<MessageForwardNode>,
		_s: &Secp256k1<T>,
	) -> Result<Vec<BlindedMessagePath>, ()> {
		Err(())
	}
}

// ---------------------------------------------------------------------------------------------
// Broadcaster: records every package; the chain simulator judges validity/finality.
#[derive(Clone, Debug)]
pub struct Broadcast {
	pub seq: u64,
	pub txs: Vec<Transaction>,
	pub kinds: Vec<String>,
}
pub struct McBroadcaster {
	pub out: Mutex<Vec<Broadcast>>,
}
impl McBroadcaster {
	pub fn new() -> Self {
		McBroadcaster { out: Mutex::new(Vec::new()) }
	}
	pub fn take(&self) -> Vec<Broadcast> {
		std::mem::take(&mut *self.out.lock().unwrap())
	}
}
impl BroadcasterInterface for McBroadcaster {
	fn broadcast_transactions(&self, txs: &[(&Transaction, TransactionType)]) {
		let b = Broadcast {
			seq: next_seq(),
			txs: txs.iter().map(|(t, _)| (*t).clone()).collect(),
			kinds: txs
				.iter()
				.map(|(_, k)| {
					let s = format!("{:?}", k);
					s.split(|c: char| !c.is_alphanumeric()).next().unwrap_or("").to_string()
				})
				.collect(),
		};
		self.out.lock().unwrap().push(b);
	}
}

// ---------------------------------------------------------------------------------------------
// Recording signer. Every world lives on exactly one thread from construction to drop, so the
// record goes to a thread-local log which the world drains after each step.
#[derive(Clone, Debug)]
pub struct CommitInfo {
	pub number: u64,
	pub txid: Txid,
	pub tx: Transaction,
	pub feerate_per_kw: u32,
	pub to_broadcaster_sat: u64,
	pub to_countersignatory_sat: u64,
	/// (offered-by-broadcaster, amount_msat, cltv, payment hash, output index)
	pub htlcs: Vec<(bool, u64, u32, [u8; 32], Option<u32>)>,
	pub funding_outpoint: Option<(Txid, u16)>,
	pub channel_value_sat: u64,
	pub broadcaster_is_funder: bool,
	pub n_htlc_sigs: usize,
	pub features: String,
}

#[derive(Clone, Debug)]
pub enum SigEv {
	SignCounterpartyCommitment { node: u8, keys_id: [u8; 32], info: CommitInfo },
	ValidateHolderCommitment { node: u8, keys_id: [u8; 32], info: CommitInfo },
	ReleaseSecret { node: u8, keys_id: [u8; 32], idx: u64 },
	ValidateCounterpartyRevocation { node: u8, keys_id: [u8; 32], idx: u64 },
	SignHolderCommitment { node: u8, keys_id: [u8; 32], number: u64, txid: Txid },
	SignHolderHtlc { node: u8, keys_id: [u8; 32], commitment_txid: Txid, commitment_number: u64 },
	SignClosing { node: u8, keys_id: [u8; 32], tx: Transaction, to_holder_sat: u64, to_counterparty_sat: u64 },
	SignJustice { node: u8, keys_id: [u8; 32], htlc: bool },
	SignCounterpartyHtlc { node: u8, keys_id: [u8; 32] },
}

thread_local! {
	pub static SIGLOG: RefCell<Vec<(u64, SigEv)>> = RefCell::new(Vec::new());
	static SEQ: std::cell::Cell<u64> = std::cell::Cell::new(0);
}
/// Per-thread (= per-world) sequence number giving signer, persister and broadcaster records one
/// chronological order.
pub fn next_seq() -> u64 {
	SEQ.with(|s| {
		let v = s.get();
		s.set(v + 1);
		v
	})
}
pub fn siglog_push(e: SigEv) {
	let q = next_seq();
	SIGLOG.with(|l| l.borrow_mut().push((q, e)));
}
pub fn siglog_take() -> Vec<(u64, SigEv)> {
	SIGLOG.with(|l| std::mem::take(&mut *l.borrow_mut()))
}

/// CommitInfo of a commitment transaction without channel parameters (funding fields left empty).
pub fn commit_info_basic(c: &CommitmentTransaction, nsigs: usize) -> CommitInfo {
	let t = c.trust();
	let built = t.built_transaction();
	CommitInfo {
		number: c.commitment_number(),
		txid: built.txid,
		tx: built.transaction.clone(),
		feerate_per_kw: c.negotiated_feerate_per_kw(),
		to_broadcaster_sat: c.to_broadcaster_value_sat(),
		to_countersignatory_sat: c.to_countersignatory_value_sat(),
		htlcs: c
			.nondust_htlcs()
			.iter()
			.map(|h| (h.offered, h.amount_msat, h.cltv_expiry, h.payment_hash.0, h.transaction_output_index))
			.collect(),
		funding_outpoint: None,
		channel_value_sat: 0,
		broadcaster_is_funder: false,
		n_htlc_sigs: nsigs,
		features: String::new(),
	}
}

fn commit_info(params: &ChannelTransactionParameters, c: &CommitmentTransaction, nsigs: usize) -> CommitInfo {
	let t = c.trust();
	let built = t.built_transaction();
	CommitInfo {
		number: c.commitment_number(),
		txid: built.txid,
		tx: built.transaction.clone(),
		feerate_per_kw: c.negotiated_feerate_per_kw(),
		to_broadcaster_sat: c.to_broadcaster_value_sat(),
		to_countersignatory_sat: c.to_countersignatory_value_sat(),
		htlcs: c
			.nondust_htlcs()
			.iter()
			.map(|h| (h.offered, h.amount_msat, h.cltv_expiry, h.payment_hash.0, h.transaction_output_index))
			.collect(),
		funding_outpoint: params.funding_outpoint.map(|o| (o.txid, o.index)),
		channel_value_sat: params.channel_value_satoshis,
		broadcaster_is_funder: false,
		n_htlc_sigs: nsigs,
		features: format!("{}", params.channel_type_features),
	}
}

#[derive(Clone)]
pub struct RecSigner {
	pub node: u8,
	pub inner: InMemorySigner,
}
impl RecSigner {
	fn kid(&self) -> [u8; 32] {
		self.inner.channel_keys_id()
	}
}
impl ChannelSigner for RecSigner {
	fn get_per_commitment_point(&self, idx: u64, secp_ctx: &Secp256k1<secp256k1::All>) -> Result<PublicKey, ()> {
		self.inner.get_per_commitment_point(idx, secp_ctx)
	}
	fn release_commitment_secret(&self, idx: u64) -> Result<[u8; 32], ()> {
		siglog_push(SigEv::ReleaseSecret { node: self.node, keys_id: self.kid(), idx });
		self.inner.release_commitment_secret(idx)
	}
	fn validate_holder_commitment(
		&self, holder_tx: &HolderCommitmentTransaction, preimages: Vec<PaymentPreimage>,
	) -> Result<(), ()> {
		// HolderCommitmentTransaction derefs to CommitmentTransaction; channel parameters are not passed
		// here, so funding data is filled in by the oracle from the sign_counterparty side.
		let c: &CommitmentTransaction = &*holder_tx;
		let t = c.trust();
		let built = t.built_transaction();
		let info = CommitInfo {
			number: c.commitment_number(),
			txid: built.txid,
			tx: built.transaction.clone(),
			feerate_per_kw: c.negotiated_feerate_per_kw(),
			to_broadcaster_sat: c.to_broadcaster_value_sat(),
			to_countersignatory_sat: c.to_countersignatory_value_sat(),
			htlcs: c
				.nondust_htlcs()
				.iter()
				.map(|h| (h.offered, h.amount_msat, h.cltv_expiry, h.payment_hash.0, h.transaction_output_index))
				.collect(),
			funding_outpoint: None,
			channel_value_sat: 0,
			broadcaster_is_funder: false,
			n_htlc_sigs: holder_tx.counterparty_htlc_sigs.len(),
			features: String::new(),
		};
		siglog_push(SigEv::ValidateHolderCommitment { node: self.node, keys_id: self.kid(), info });
		self.inner.validate_holder_commitment(holder_tx, preimages)
	}
	fn validate_counterparty_revocation(&self, idx: u64, secret: &SecretKey) -> Result<(), ()> {
		siglog_push(SigEv::ValidateCounterpartyRevocation { node: self.node, keys_id: self.kid(), idx });
		self.inner.validate_counterparty_revocation(idx, secret)
	}
	fn pubkeys(&self, secp_ctx: &Secp256k1<secp256k1::All>) -> ChannelPublicKeys {
		self.inner.pubkeys(secp_ctx)
	}
	fn new_funding_pubkey(&self, splice_parent_funding_txid: Txid, secp_ctx: &Secp256k1<secp256k1::All>) -> PublicKey {
		self.inner.new_funding_pubkey(splice_parent_funding_txid, secp_ctx)
	}
	fn channel_keys_id(&self) -> [u8; 32] {
		self.inner.channel_keys_id()
	}
}
impl EcdsaChannelSigner for RecSigner {
	fn sign_counterparty_commitment(
		&self, channel_parameters: &ChannelTransactionParameters, commitment_tx: &CommitmentTransaction,
		inbound_htlc_preimages: Vec<PaymentPreimage>, outbound_htlc_preimages: Vec<PaymentPreimage>,
		secp_ctx: &Secp256k1<secp256k1::All>,
	) -> Result<(Signature, Vec<Signature>), ()> {
		let r = self.inner.sign_counterparty_commitment(
			channel_parameters,
			commitment_tx,
			inbound_htlc_preimages,
			outbound_htlc_preimages,
			secp_ctx,
		);
		let n = r.as_ref().map(|x| x.1.len()).unwrap_or(0);
		let mut info = commit_info(channel_parameters, commitment_tx, n);
		// the broadcaster of a counterparty commitment is the counterparty
		info.broadcaster_is_funder = !channel_parameters.is_outbound_from_holder;
		siglog_push(SigEv::SignCounterpartyCommitment { node: self.node, keys_id: self.kid(), info });
		r
	}
	fn sign_holder_commitment(
		&self, channel_parameters: &ChannelTransactionParameters, commitment_tx: &HolderCommitmentTransaction,
		secp_ctx: &Secp256k1<secp256k1::All>,
	) -> Result<Signature, ()> {
		siglog_push(SigEv::SignHolderCommitment {
			node: self.node,
			keys_id: self.kid(),
			number: commitment_tx.commitment_number(),
			txid: commitment_tx.trust().txid(),
		});
		self.inner.sign_holder_commitment(channel_parameters, commitment_tx, secp_ctx)
	}
	fn unsafe_sign_holder_commitment(
		&self, channel_parameters: &ChannelTransactionParameters, commitment_tx: &HolderCommitmentTransaction,
		secp_ctx: &Secp256k1<secp256k1::All>,
	) -> Result<Signature, ()> {
		self.inner.unsafe_sign_holder_commitment(channel_parameters, commitment_tx, secp_ctx)
	}
	fn sign_justice_revoked_output(
		&self, channel_parameters: &ChannelTransactionParameters, justice_tx: &Transaction, input: usize, amount: u64,
		per_commitment_key: &SecretKey, secp_ctx: &Secp256k1<secp256k1::All>,
	) -> Result<Signature, ()> {
		siglog_push(SigEv::SignJustice { node: self.node, keys_id: self.kid(), htlc: false });
		self.inner.sign_justice_revoked_output(channel_parameters, justice_tx, input, amount, per_commitment_key, secp_ctx)
	}
	fn sign_justice_revoked_htlc(
		&self, channel_parameters: &ChannelTransactionParameters, justice_tx: &Transaction, input: usize, amount: u64,
		per_commitment_key: &SecretKey, htlc: &HTLCOutputInCommitment, secp_ctx: &Secp256k1<secp256k1::All>,
	) -> Result<Signature, ()> {
		siglog_push(SigEv::SignJustice { node: self.node, keys_id: self.kid(), htlc: true });
		self.inner.sign_justice_revoked_htlc(
			channel_parameters,
			justice_tx,
			input,
			amount,
			per_commitment_key,
			htlc,
			secp_ctx,
		)
	}
	fn sign_holder_htlc_transaction(
		&self, htlc_tx: &Transaction, input: usize, htlc_descriptor: &HTLCDescriptor, secp_ctx: &Secp256k1<secp256k1::All>,
	) -> Result<Signature, ()> {
		siglog_push(SigEv::SignHolderHtlc {
			node: self.node,
			keys_id: self.kid(),
			commitment_txid: htlc_descriptor.commitment_txid,
			commitment_number: htlc_descriptor.per_commitment_number,
		});
		self.inner.sign_holder_htlc_transaction(htlc_tx, input, htlc_descriptor, secp_ctx)
	}
	fn sign_counterparty_htlc_transaction(
		&self, channel_parameters: &ChannelTransactionParameters, htlc_tx: &Transaction, input: usize, amount: u64,
		per_commitment_point: &PublicKey, htlc: &HTLCOutputInCommitment, secp_ctx: &Secp256k1<secp256k1::All>,
	) -> Result<Signature, ()> {
		siglog_push(SigEv::SignCounterpartyHtlc { node: self.node, keys_id: self.kid() });
		self.inner.sign_counterparty_htlc_transaction(
			channel_parameters,
			htlc_tx,
			input,
			amount,
			per_commitment_point,
			htlc,
			secp_ctx,
		)
	}
	fn sign_closing_transaction(
		&self, channel_parameters: &ChannelTransactionParameters, closing_tx: &ClosingTransaction,
		secp_ctx: &Secp256k1<secp256k1::All>,
	) -> Result<Signature, ()> {
		siglog_push(SigEv::SignClosing {
			node: self.node,
			keys_id: self.kid(),
			tx: closing_tx.trust().built_transaction().clone(),
			to_holder_sat: closing_tx.to_holder_value_sat(),
			to_counterparty_sat: closing_tx.to_counterparty_value_sat(),
		});
		self.inner.sign_closing_transaction(channel_parameters, closing_tx, secp_ctx)
	}
	fn sign_holder_keyed_anchor_input(
		&self, channel_parameters: &ChannelTransactionParameters, anchor_tx: &Transaction, input: usize,
		secp_ctx: &Secp256k1<secp256k1::All>,
	) -> Result<Signature, ()> {
		self.inner.sign_holder_keyed_anchor_input(channel_parameters, anchor_tx, input, secp_ctx)
	}
	fn sign_channel_announcement_with_funding_key(
		&self, channel_parameters: &ChannelTransactionParameters, msg: &UnsignedChannelAnnouncement,
		secp_ctx: &Secp256k1<secp256k1::All>,
	) -> Result<Signature, ()> {
		self.inner.sign_channel_announcement_with_funding_key(channel_parameters, msg, secp_ctx)
	}
	fn sign_splice_shared_input(
		&self, channel_parameters: &ChannelTransactionParameters, tx: &Transaction, input_index: usize,
		secp_ctx: &Secp256k1<secp256k1::All>,
	) -> Result<Signature, ()> {
		self.inner.sign_splice_shared_input(channel_parameters, tx, input_index, secp_ctx)
	}
}
impl DynSignerTrait for RecSigner {}
impl InnerSign for RecSigner {
	fn box_clone(&self) -> Box<dyn InnerSign> {
		Box::new(self.clone())
	}
	fn as_any(&self) -> &dyn core::any::Any {
		self
	}
}

/// KeysManager wrapper handing out recording signers and a *deterministic* entropy stream.
pub struct RecKeys {
	pub node: u8,
	pub km: KeysManager,
}
impl NodeSigner for RecKeys {
	fn get_node_id(&self, recipient: Recipient) -> Result<PublicKey, ()> {
		self.km.get_node_id(recipient)
	}
	fn sign_gossip_message(&self, msg: UnsignedGossipMessage) -> Result<Signature, ()> {
		self.km.sign_gossip_message(msg)
	}
	fn sign_message(&self, msg: &[u8]) -> Result<String, ()> {
		self.km.sign_message(msg)
	}
	fn ecdh(
		&self, recipient: Recipient, other_key: &PublicKey, tweak: Option<&secp256k1::Scalar>,
	) -> Result<secp256k1::ecdh::SharedSecret, ()> {
		self.km.ecdh(recipient, other_key, tweak)
	}
	fn sign_invoice(
		&self, invoice: &lightning_invoice_shim::RawBolt11Invoice, recipient: Recipient,
	) -> Result<secp256k1::ecdsa::RecoverableSignature, ()> {
		self.km.sign_invoice(invoice, recipient)
	}
	fn sign_bolt12_invoice(
		&self, invoice: &lightning::offers::invoice::UnsignedBolt12Invoice,
	) -> Result<secp256k1::schnorr::Signature, ()> {
		self.km.sign_bolt12_invoice(invoice)
	}
	fn get_expanded_key(&self) -> ExpandedKey {
		self.km.get_expanded_key()
	}
	fn get_peer_storage_key(&self) -> PeerStorageKey {
		self.km.get_peer_storage_key()
	}
	fn get_receive_auth_key(&self) -> ReceiveAuthKey {
		self.km.get_receive_auth_key()
	}
}
mod lightning_invoice_shim {
	pub use lightning::bolt11_invoice::RawBolt11Invoice;
}
impl SignerProvider for RecKeys {
	type EcdsaSigner = DynSigner;
	fn get_destination_script(&self, channel_keys_id: [u8; 32]) -> Result<ScriptBuf, ()> {
		self.km.get_destination_script(channel_keys_id)
	}
	fn get_shutdown_scriptpubkey(&self) -> Result<ShutdownScript, ()> {
		self.km.get_shutdown_scriptpubkey()
	}
	fn generate_channel_keys_id(&self, inbound: bool, user_channel_id: u128) -> [u8; 32] {
		self.km.generate_channel_keys_id(inbound, user_channel_id)
	}
	fn derive_channel_signer(&self, channel_keys_id: [u8; 32]) -> DynSigner {
		DynSigner::new(RecSigner { node: self.node, inner: self.km.derive_channel_signer(channel_keys_id) })
	}
}
impl EntropySource for RecKeys {
	fn get_secure_random_bytes(&self) -> [u8; 32] {
		self.km.get_secure_random_bytes()
	}
}
impl OutputSpender for RecKeys {
	fn spend_spendable_outputs(
		&self, descriptors: &[&SpendableOutputDescriptor], outputs: Vec<TxOut>, change_destination_script: ScriptBuf,
		feerate_sat_per_1000_weight: u32, locktime: Option<bitcoin::absolute::LockTime>, secp_ctx: &Secp256k1<secp256k1::All>,
	) -> Result<Transaction, ()> {
		self.km.spend_spendable_outputs(
			descriptors,
			outputs,
			change_destination_script,
			feerate_sat_per_1000_weight,
			locktime,
			secp_ctx,
		)
	}
}
impl DynKeysInterfaceTrait for RecKeys {}

struct RecFactory;
impl TestSignerFactory for RecFactory {
	fn make_signer(
		&self, seed: &[u8; 32], now: Duration, v2_remote_key_derivation: bool, _phantom_seed: Option<&[u8; 32]>,
	) -> Box<dyn DynKeysInterfaceTrait<EcdsaSigner = DynSigner>> {
		let km = KeysManager::new(seed, now.as_secs(), now.subsec_nanos(), v2_remote_key_derivation);
		Box::new(RecKeys { node: seed[0], km })
	}
}

/// Installs the recording signer factory (process-wide, idempotent).
pub fn install_signer_factory() {
	SIGNER_FACTORY.set(Arc::new(RecFactory));
}
