//! One LDK node made of real objects owned through `Arc`s, so it can be torn down and rebuilt from
//! its durable state any number of times.
use crate::base::{McBroadcaster, McLogger, NoRouter};
use crate::persist::{McPersist, Snapshot};
use bitcoin::secp256k1::PublicKey;
use bitcoin::Network;
use lightning::chain::chainmonitor::ChainMonitor;
use lightning::chain::channelmonitor::ChannelMonitor;
use lightning::chain::{BlockLocator, Watch};
use lightning::ln::channelmanager::{ChainParameters, ChannelManager, ChannelManagerReadArgs};
use lightning::ln::types::ChannelId;
use lightning::sign::NodeSigner;
use lightning::util::config::UserConfig;
use lightning::util::hash_tables::new_hash_map;
use lightning::util::ser::{ReadableArgs, Writeable};
use lightning::util::test_channel_signer::TestChannelSigner;
use lightning::events::bump_transaction::sync::BumpTransactionEventHandlerSync;
use lightning::util::wallet_utils::WalletSync;
use lightning::util::test_utils::{TestChainSource, TestFeeEstimator, TestKeysInterface, TestWalletSource};
use std::collections::BTreeMap;
use std::sync::Arc;

pub const NETWORK: Network = Network::Testnet;

pub type CMon = ChainMonitor<
	TestChannelSigner,
	Arc<TestChainSource>,
	Arc<McBroadcaster>,
	Arc<TestFeeEstimator>,
	Arc<McLogger>,
	Arc<McPersist>,
	Arc<TestKeysInterface>,
>;
pub type CM = ChannelManager<
	Arc<CMon>,
	Arc<McBroadcaster>,
	Arc<TestKeysInterface>,
	Arc<TestKeysInterface>,
	Arc<TestKeysInterface>,
	Arc<TestFeeEstimator>,
	Arc<NoRouter>,
	Arc<NoRouter>,
	Arc<McLogger>,
>;

pub type Bumper = BumpTransactionEventHandlerSync<
	Arc<McBroadcaster>,
	Arc<WalletSync<Arc<TestWalletSource>, Arc<McLogger>>>,
	Arc<TestKeysInterface>,
	Arc<McLogger>,
>;

pub struct McNode {
	/// set whenever the chain monitor may have produced events (block connected, monitor update)
	pub mon_dirty: std::cell::Cell<bool>,
	pub wallet: Arc<TestWalletSource>,
	pub bumper: Bumper,
	pub tag: u8,
	pub id: PublicKey,
	pub keys: Arc<TestKeysInterface>,
	pub bc: Arc<McBroadcaster>,
	pub fee: Arc<TestFeeEstimator>,
	pub logger: Arc<McLogger>,
	pub persist: Arc<McPersist>,
	pub chain_src: Arc<TestChainSource>,
	pub mon: Arc<CMon>,
	pub cm: Arc<CM>,
	pub cfg: UserConfig,
	pub deferred: bool,
	/// Bytes of the manager at the last durable write.
	pub durable_manager: Vec<u8>,
	/// Number of restarts so far.
	pub restarts: u32,
}

fn build_mon(n: &McNodeParts, deferred: bool) -> Arc<CMon> {
	Arc::new(ChainMonitor::new(
		Some(n.chain_src.clone()),
		n.bc.clone(),
		n.logger.clone(),
		n.fee.clone(),
		n.persist.clone(),
		n.keys.clone(),
		n.keys.get_peer_storage_key(),
		deferred,
	))
}

struct McNodeParts {
	keys: Arc<TestKeysInterface>,
	bc: Arc<McBroadcaster>,
	fee: Arc<TestFeeEstimator>,
	logger: Arc<McLogger>,
	persist: Arc<McPersist>,
	chain_src: Arc<TestChainSource>,
}

impl McNode {
	pub fn new(tag: u8, cfg: UserConfig, feerate: u32, deferred: bool) -> McNode {
		let mut seed = [tag; 32];
		seed[31] = 1;
		let keys = Arc::new(TestKeysInterface::new(&seed, NETWORK));
		let logger = Arc::new(McLogger::new(tag));
		let parts = McNodeParts {
			keys: keys.clone(),
			bc: Arc::new(McBroadcaster::new()),
			fee: Arc::new(TestFeeEstimator::new(feerate)),
			logger: logger.clone(),
			persist: Arc::new(McPersist::new(logger.clone())),
			chain_src: Arc::new(TestChainSource::new(NETWORK)),
		};
		let mon = build_mon(&parts, deferred);
		let params = ChainParameters { network: NETWORK, best_block: BlockLocator::from_network(NETWORK) };
		let r = Arc::new(NoRouter);
		let cm = Arc::new(ChannelManager::new(
			parts.fee.clone(),
			mon.clone(),
			parts.bc.clone(),
			r.clone(),
			r,
			logger.clone(),
			keys.clone(),
			keys.clone(),
			keys.clone(),
			cfg.clone(),
			params,
			42,
		));
		let id = cm.get_our_node_id();
		let durable_manager = cm.encode();
		let mut wk = [0x55u8; 32];
		wk[0] = tag;
		let wallet = Arc::new(TestWalletSource::new(bitcoin::secp256k1::SecretKey::from_slice(&wk).unwrap()));
		let bumper = BumpTransactionEventHandlerSync::new(
			parts.bc.clone(),
			Arc::new(WalletSync::new(wallet.clone(), logger.clone())),
			keys.clone(),
			logger.clone(),
		);
		McNode {
			mon_dirty: std::cell::Cell::new(false),
			wallet,
			bumper,
			tag,
			id,
			keys,
			bc: parts.bc,
			fee: parts.fee,
			logger,
			persist: parts.persist,
			chain_src: parts.chain_src,
			mon,
			cm,
			cfg,
			deferred,
			durable_manager,
			restarts: 0,
		}
	}

	/// A second, independent incarnation of a node ("shadow") restored from an earlier durable
	/// state: same seed (hence same keys), its own signer policy state with the revocation check off,
	/// its own persister / broadcaster. Models a counterparty that kept old state.
	pub fn shadow_from_bytes(
		tag: u8, cfg: UserConfig, feerate: u32, manager_bytes: &[u8], monitor_bytes: &[(ChannelId, Vec<u8>)],
		best_chain: &[bitcoin::Block],
	) -> Result<McNode, String> {
		let mut seed = [tag; 32];
		seed[31] = 1;
		let mut ki = TestKeysInterface::new(&seed, NETWORK);
		ki.disable_revocation_policy_check = true;
		ki.disable_all_state_policy_checks = true;
		let keys = Arc::new(ki);
		let logger = Arc::new(McLogger::new(tag.to_ascii_lowercase()));
		let parts = McNodeParts {
			keys: keys.clone(),
			bc: Arc::new(McBroadcaster::new()),
			fee: Arc::new(TestFeeEstimator::new(feerate)),
			logger: logger.clone(),
			persist: Arc::new(McPersist::new(logger.clone())),
			chain_src: Arc::new(TestChainSource::new(NETWORK)),
		};
		let mon = build_mon(&parts, false);
		let mut monitors: Vec<(ChannelId, ChannelMonitor<TestChannelSigner>)> = Vec::new();
		for (cid, bytes) in monitor_bytes.iter() {
			let m = <(BlockLocator, ChannelMonitor<TestChannelSigner>)>::read(&mut &bytes[..], (&*keys, &*keys))
				.map_err(|e| format!("shadow monitor read failed: {:?}", e))?;
			monitors.push((*cid, m.1));
		}
		let mut refs = new_hash_map();
		for (cid, m) in monitors.iter() {
			refs.insert(*cid, m);
		}
		let r = Arc::new(NoRouter);
		let args = ChannelManagerReadArgs {
			entropy_source: keys.clone(),
			node_signer: keys.clone(),
			signer_provider: keys.clone(),
			fee_estimator: parts.fee.clone(),
			chain_monitor: mon.clone(),
			tx_broadcaster: parts.bc.clone(),
			router: r.clone(),
			message_router: r,
			logger: logger.clone(),
			config: cfg.clone(),
			channel_monitors: refs,
		};
		let cm = <(BlockLocator, CM)>::read(&mut &manager_bytes[..], args).map_err(|e| format!("shadow manager read failed: {:?}", e))?.1;
		let tip = (best_chain.len() - 1) as u32;
		for (_, m) in monitors.iter() {
			let from = m.current_best_block().height;
			for h in (from + 1)..=tip {
				let b = &best_chain[h as usize];
				let txdata: Vec<(usize, &bitcoin::Transaction)> = b.txdata.iter().enumerate().collect();
				m.block_connected(&b.header, &txdata, h, &*parts.bc, &*parts.fee, &logger);
			}
		}
		{
			use lightning::chain::Listen;
			let from = cm.current_best_block().height;
			for h in (from + 1)..=tip {
				cm.block_connected(&best_chain[h as usize], h);
			}
		}
		for (cid, m) in monitors.into_iter() {
			mon.watch_channel(cid, m).map_err(|_| "watch_channel failed".to_string())?;
		}
		let cm = Arc::new(cm);
		let id = cm.get_our_node_id();
		let mut wk = [0x55u8; 32];
		wk[0] = tag;
		let wallet = Arc::new(TestWalletSource::new(bitcoin::secp256k1::SecretKey::from_slice(&wk).unwrap()));
		let bumper = BumpTransactionEventHandlerSync::new(
			parts.bc.clone(),
			Arc::new(WalletSync::new(wallet.clone(), logger.clone())),
			keys.clone(),
			logger.clone(),
		);
		let durable_manager = manager_bytes.to_vec();
		Ok(McNode {
			mon_dirty: std::cell::Cell::new(true),
			wallet,
			bumper,
			tag,
			id,
			keys,
			bc: parts.bc,
			fee: parts.fee,
			logger,
			persist: parts.persist,
			chain_src: parts.chain_src,
			mon,
			cm,
			cfg,
			deferred: false,
			durable_manager,
			restarts: 0,
		})
	}

	pub fn write_manager(&mut self) {
		self.durable_manager = self.cm.encode();
	}

	/// Drops the live manager + chain monitor and rebuilds them from `manager_bytes` and the chosen
	/// monitor snapshot per channel. The signer state (`keys`) persists, like an external signer.
	pub fn restart(
		&mut self, chosen: &BTreeMap<ChannelId, Snapshot>, manager_bytes: &[u8], reconstruct: Option<bool>,
		best_chain: &[bitcoin::Block],
	) -> Result<(), String> {
		let parts = McNodeParts {
			keys: self.keys.clone(),
			bc: self.bc.clone(),
			fee: self.fee.clone(),
			logger: self.logger.clone(),
			persist: self.persist.clone(),
			chain_src: self.chain_src.clone(),
		};
		self.persist.reset_after_restart(chosen);
		let mon = build_mon(&parts, self.deferred);
		let mut monitors: Vec<(ChannelId, ChannelMonitor<TestChannelSigner>)> = Vec::new();
		for (cid, snap) in chosen.iter() {
			let m = <(BlockLocator, ChannelMonitor<TestChannelSigner>)>::read(
				&mut &snap.bytes[..],
				(&*self.keys, &*self.keys),
			)
			.map_err(|e| format!("monitor read failed: {:?}", e))?;
			monitors.push((*cid, m.1));
		}
		let mut refs = new_hash_map();
		for (cid, m) in monitors.iter() {
			refs.insert(*cid, m);
		}
		let _ = reconstruct;
		let r = Arc::new(NoRouter);
		let args = ChannelManagerReadArgs {
			entropy_source: self.keys.clone(),
			node_signer: self.keys.clone(),
			signer_provider: self.keys.clone(),
			fee_estimator: self.fee.clone(),
			chain_monitor: mon.clone(),
			tx_broadcaster: self.bc.clone(),
			router: r.clone(),
			message_router: r,
			logger: self.logger.clone(),
			config: self.cfg.clone(),
			channel_monitors: refs,
		};
		let cm = <(BlockLocator, CM)>::read(&mut &manager_bytes[..], args)
			.map_err(|e| format!("manager read failed: {:?}", e))?
			.1;
		// Bring every monitor and the manager to the tip from its own best block, individually, the
		// way `lightning-block-sync::init::synchronize_listeners` does before `watch_channel`.
		let tip = (best_chain.len() - 1) as u32;
		for (_, m) in monitors.iter() {
			let from = m.current_best_block().height;
			for h in (from + 1)..=tip {
				let b = &best_chain[h as usize];
				let txdata: Vec<(usize, &bitcoin::Transaction)> = b.txdata.iter().enumerate().collect();
				m.block_connected(&b.header, &txdata, h, &*self.bc, &*self.fee, &self.logger);
			}
		}
		{
			use lightning::chain::Listen;
			let from = cm.current_best_block().height;
			for h in (from + 1)..=tip {
				cm.block_connected(&best_chain[h as usize], h);
			}
		}
		for (cid, m) in monitors.into_iter() {
			mon.watch_channel(cid, m).map_err(|_| "watch_channel failed".to_string())?;
		}
		if self.deferred {
			// the monitors loaded at start-up are registered before anything else happens
			mon.flush(mon.pending_operation_count(), &self.logger);
		}
		self.cm = Arc::new(cm);
		self.mon = mon;
		self.restarts += 1;
		Ok(())
	}

	pub fn has_events(&self) -> bool {
		use lightning::events::{Event, EventsProvider, ReplayEvent};
		let seen = std::cell::Cell::new(false);
		self.cm.process_pending_events(&|_e: Event| -> Result<(), ReplayEvent> {
			seen.set(true);
			Err(ReplayEvent())
		});
		// The chain monitor has events of its own (SpendableOutputs, BumpTransaction). They must not be
		// peeked with a failing handler: BumpTransaction events are "repeated events" which the monitor
		// drops when the handler fails (they are only regenerated at the next bump). The world tracks a
		// dirty flag instead.
		seen.get() || self.mon_dirty.get()
	}
}
