//! C09 – no state is revealed to the peer before its monitor update is durable.
use crate::checks::c01::{user_config, Ct};
use crate::oracles::{chan_infos, CommitmentOracle, NoErrorOracle, PaymentsResolveOracle, PersistOrderOracle, RevocationOracle};
use crate::runner::{fill_model_checking_evidence, run_scenarios, Scenario};
use crate::sys::{Deviations, Op, WorldSys};
use crate::world::{ClaimPolicy, World};
use lightning::ln::types::ChannelId;
use mc_common::cli::{Args, Tier};
use mc_common::evidence::{Evidence, Level};
use mc_common::explore::Config;
use mc_common::json;
use std::time::Duration;

/// A – B – C, channels A→B (index 0) and B→C (index 1). `async_from_start` lists nodes whose
/// persister answers InProgress from the very first call (so channel opening is covered too).
pub fn line_world(ct: Ct, n: usize, async_from_start: &[usize]) -> (World, Vec<ChannelId>) {
	line_world_deferred(ct, n, async_from_start, &[])
}

/// `deferred` lists the nodes whose ChainMonitor runs in deferred mode.
pub fn line_world_deferred(ct: Ct, n: usize, async_from_start: &[usize], deferred: &[usize]) -> (World, Vec<ChannelId>) {
	let mut w = World::new_deferred((0..n).map(|_| user_config(ct)).collect(), 253, deferred);
	for i in async_from_start {
		w.nodes[*i].persist.set_async_all(true);
	}
	let mut chans = Vec::new();
	for i in 0..(n - 1) {
		chans.push(w.open_channel(i, i + 1, 1_000_000, 400_000_000));
	}
	if ct != Ct::Static {
		w.fund_wallets();
	}
	(w, chans)
}

#[derive(Clone, Debug)]
pub struct C09Scn {
	pub name: String,
	pub ct: Ct,
	pub nodes: usize,
	pub ops: Vec<Op>,
	pub ops_first: bool,
	pub dev: Deviations,
	pub k: u32,
	pub async_from_start: Vec<usize>,
	pub max_disconnects: u32,
	/// nodes whose ChainMonitor runs in deferred mode
	pub deferred: Vec<usize>,
}

/// World in which no channel exists yet: the scenario's first operation opens one.
fn build_open_flow(s: &C09Scn) -> WorldSys {
	let mut w = World::new_deferred((0..s.nodes).map(|_| user_config(s.ct)).collect(), 253, &s.deferred);
	for i in s.async_from_start.iter() {
		w.nodes[*i].persist.set_async_all(true);
	}
	w.connect(0, 1);
	let mut sys = WorldSys::new(w, Vec::new(), s.ops.clone());
	sys.ops_first = s.ops_first;
	sys.dev = s.dev.clone();
	sys.max_disconnects = s.max_disconnects;
	sys.crash_nodes = (0..s.nodes).collect(); // nodes whose completions may be held
	for i in s.async_from_start.iter() {
		sys.async_on[*i] = true;
	}
	sys.oracles.push(Box::new(crate::oracles::OpenPersistOracle::default()));
	sys.oracles.push(Box::new(NoErrorOracle { allow_coop: false, allow_force_by_user: false, allow_unfunded_drop: true, ..Default::default() }));
	sys.w.obs_cursor = sys.w.obs.len();
	sys
}

pub fn build(s: &C09Scn) -> WorldSys {
	if s.ops.iter().any(|o| matches!(o, Op::Open { .. })) {
		return build_open_flow(s);
	}
	let (w, chans) = line_world_deferred(s.ct, s.nodes, &s.async_from_start, &s.deferred);
	let infos = chan_infos(&w, &chans);
	let mut po = PersistOrderOracle::new(&w, infos.clone());
	po.check_initial = true;
	let rev = RevocationOracle::new(&w, infos.clone());
	let mut sys = WorldSys::new(w, chans, s.ops.clone());
	sys.ops_first = s.ops_first;
	sys.dev = s.dev.clone();
	sys.max_disconnects = s.max_disconnects;
	sys.crash_nodes = s.deferred.clone(); // nodes whose background task may stall (HoldManager)
	for i in s.async_from_start.iter() {
		sys.async_on[*i] = true;
	}
	sys.oracles.push(Box::new(NoErrorOracle { allow_coop: false, allow_force_by_user: false, ..Default::default() }));
	sys.oracles.push(Box::new(po));
	sys.oracles.push(Box::new(CommitmentOracle::new(infos)));
	sys.oracles.push(Box::new(rev));
	sys.oracles.push(Box::new(PaymentsResolveOracle));
	sys.w.obs_cursor = sys.w.obs.len();
	sys
}

pub fn scenarios(tier: Tier) -> Vec<C09Scn> {
	let mut v = Vec::new();
	let th = tier.is_thorough();
	let asyncdev = Deviations {
		reorder: Some(1),
		early_op: Some(1),
		async_persist: Some(1),
		complete_reorder: Some(0),
		..Deviations::default()
	};
	let cts: Vec<Ct> = if th { vec![Ct::Static, Ct::Anchors, Ct::ZeroFee] } else { vec![Ct::Anchors] };
	for ct in cts {
		let n = format!("{:?}", ct);
		// two nodes, one payment: async switched on at any point (deviation), completions in any
		// order and at any time (zero-cost alternatives = full branching on completion timing)
		v.push(C09Scn {
			name: format!("{}-ab-claim", n),
			ct,
			nodes: 2,
			ops: vec![Op::Send { from: 0, hops: vec![(1, 0)], amount_msat: 50_000_000, policy: ClaimPolicy::Claim }],
			ops_first: true,
			dev: asyncdev.clone(),
			k: if th { 2 } else { 1 },
			async_from_start: vec![],
			max_disconnects: 0,
			deferred: vec![],
		});
		// both nodes async from the start (covers channel opening), all completion timings
		v.push(C09Scn {
			name: format!("{}-ab-async-open", n),
			ct,
			nodes: 2,
			ops: vec![Op::Send { from: 0, hops: vec![(1, 0)], amount_msat: 50_000_000, policy: ClaimPolicy::Fail }],
			ops_first: true,
			dev: Deviations { async_persist: None, ..asyncdev.clone() },
			k: if th { 1 } else { 0 },
			async_from_start: vec![0, 1],
			max_disconnects: 0,
			deferred: vec![],
		});
		// the opening flow itself: either side's initial monitor write slow (never completing until the
		// end), the connection dropping anywhere, the funding confirming at any point
		v.push(C09Scn {
			name: format!("{}-ab-open-flow", n),
			ct,
			nodes: 2,
			ops: vec![
				Op::Open { from: 0, to: 1 },
				Op::ConfirmFunding,
				Op::Send { from: 0, hops: vec![(1, 0)], amount_msat: 50_000_000, policy: ClaimPolicy::Claim },
			],
			ops_first: false,
			dev: Deviations {
				reorder: Some(1),
				early_op: Some(1),
				disconnect: Some(1),
				hold_completions: Some(1),
				complete_reorder: None,
				early_release: None,
				..Deviations::default()
			},
			k: if th { 3 } else { 2 },
			async_from_start: vec![0, 1],
			max_disconnects: 1,
			deferred: vec![],
		});
		// forwarding node async from the start: upstream claim must wait for the preimage update
		v.push(C09Scn {
			name: format!("{}-abc-forward-claim", n),
			ct,
			nodes: 3,
			ops: vec![Op::Send { from: 0, hops: vec![(1, 0), (2, 1)], amount_msat: 50_000_000, policy: ClaimPolicy::Claim }],
			ops_first: true,
			dev: Deviations { async_persist: None, ..asyncdev.clone() },
			k: if th { 1 } else { 0 },
			async_from_start: vec![1],
			max_disconnects: 0,
			deferred: vec![],
		});
		v.push(C09Scn {
			name: format!("{}-abc-forward-fail", n),
			ct,
			nodes: 3,
			ops: vec![Op::Send { from: 0, hops: vec![(1, 0), (2, 1)], amount_msat: 50_000_000, policy: ClaimPolicy::Fail }],
			ops_first: true,
			dev: Deviations { async_persist: None, ..asyncdev.clone() },
			k: if th { 1 } else { 0 },
			async_from_start: vec![1],
			max_disconnects: 0,
			deferred: vec![],
		});
		// several payments in flight through B while B delays handling its events: monitor updates get
		// blocked behind unhandled events while new updates (learned preimages) must still fly past them
		v.push(C09Scn {
			name: format!("{}-abc-blocked-updates", n),
			ct,
			nodes: 3,
			ops: vec![
				// a forwarded payment C -> B -> A stays pending at A ...
				Op::Send { from: 2, hops: vec![(1, 1), (0, 0)], amount_msat: 30_000_000, policy: ClaimPolicy::Hold },
				// ... B pays C (B's PaymentSent may stay unhandled: one held deviation) ...
				Op::Send { from: 1, hops: vec![(2, 1)], amount_msat: 20_000_000, policy: ClaimPolicy::Claim },
				// ... C adds another HTLC on the same channel ...
				Op::Send { from: 2, hops: vec![(1, 1)], amount_msat: 10_000_000, policy: ClaimPolicy::Claim },
				// ... and only then A releases the preimage of the first one
				Op::ClaimHeld { pay: 0 },
			],
			ops_first: false,
			dev: Deviations { hold_events: Some(1), reorder: Some(1), early_op: Some(1), async_persist: None, ..asyncdev.clone() },
			k: if th { 2 } else { 1 },
			async_from_start: vec![],
			max_disconnects: 0,
			deferred: vec![],
		});
		// completion during disconnection
		v.push(C09Scn {
			name: format!("{}-ab-disconnect", n),
			ct,
			nodes: 2,
			ops: vec![Op::Send { from: 0, hops: vec![(1, 0)], amount_msat: 50_000_000, policy: ClaimPolicy::Claim }],
			ops_first: true,
			dev: Deviations { async_persist: None, disconnect: Some(1), complete_reorder: Some(1), ..asyncdev.clone() },
			k: if th { 2 } else { 1 },
			async_from_start: vec![1],
			max_disconnects: 1,
			deferred: vec![],
		});
		// a revoke_and_ack (+ commitment_signed) lost to a disconnection, then - while the peer is away - a
		// different update (the preimage of a payment held so far) whose write stays in flight across the
		// reconnection: the channel_reestablish is handled during the in-flight update, and when it completes
		// exactly the lost messages must be released, revoke_and_ack first
		v.push(C09Scn {
			name: format!("{}-ab-lost-raa-claim-inflight-reestablish", n),
			ct,
			nodes: 2,
			ops: vec![
				Op::Send { from: 1, hops: vec![(0, 0)], amount_msat: 30_000_000, policy: ClaimPolicy::Hold },
				Op::Send { from: 1, hops: vec![(0, 0)], amount_msat: 20_000_000, policy: ClaimPolicy::Claim },
				Op::ClaimHeld { pay: 0 },
			],
			ops_first: false,
			dev: Deviations {
				reorder: None,
				early_op: Some(1),
				disconnect: Some(1),
				async_persist: None,
				// (default order: reconnect and deliver before completing, so the reestablish meets the in-flight write)
				complete_reorder: if th { Some(1) } else { None },
				..Deviations::default()
			},
			k: if th { 3 } else { 2 },
			async_from_start: vec![0],
			max_disconnects: 1,
			deferred: vec![],
		});
		// ---- deferred ChainMonitor mode: monitor operations are queued and executed by the node's background task
		// (count the queue, write the manager, flush that many); the background task may stall at any point
		// (HoldManager: one sticky deviation), persistence at flush time is synchronous or asynchronous
		for (tag, asyncs) in [("sync", vec![]), ("async", vec![0usize, 1])] {
			let ddev = Deviations {
				reorder: Some(1),
				early_op: Some(1),
				async_persist: None,
				hold_manager: Some(1),
				complete_reorder: if th { Some(0) } else { Some(1) },
				..Deviations::default()
			};
			v.push(C09Scn {
				name: format!("{}-ab-claim-deferred-{}", n, tag),
				ct,
				nodes: 2,
				ops: vec![Op::Send { from: 0, hops: vec![(1, 0)], amount_msat: 50_000_000, policy: ClaimPolicy::Claim }],
				ops_first: true,
				dev: ddev.clone(),
				k: if th { 2 } else { 1 },
				async_from_start: asyncs.clone(),
				max_disconnects: 0,
				deferred: vec![0, 1],
			});
			v.push(C09Scn {
				name: format!("{}-ab-disconnect-deferred-{}", n, tag),
				ct,
				nodes: 2,
				ops: vec![Op::Send { from: 0, hops: vec![(1, 0)], amount_msat: 50_000_000, policy: ClaimPolicy::Fail }],
				ops_first: true,
				dev: Deviations { disconnect: Some(1), ..ddev.clone() },
				k: if th { 2 } else { 1 },
				async_from_start: asyncs.clone(),
				max_disconnects: 1,
				deferred: vec![0, 1],
			});
			v.push(C09Scn {
				name: format!("{}-abc-forward-claim-deferred-{}", n, tag),
				ct,
				nodes: 3,
				ops: vec![Op::Send { from: 0, hops: vec![(1, 0), (2, 1)], amount_msat: 50_000_000, policy: ClaimPolicy::Claim }],
				ops_first: true,
				dev: ddev.clone(),
				k: if th { 2 } else { 1 },
				async_from_start: if asyncs.is_empty() { vec![] } else { vec![1] },
				max_disconnects: 0,
				deferred: vec![1],
			});
		}
		// deferred mode, the background task stalled while two payments move (several operations queue up for one
		// channel), and the store turning asynchronous part-way through the flush that finally executes them
		v.push(C09Scn {
			name: format!("{}-ab-deferred-flush-sync-then-async", n),
			ct,
			nodes: 2,
			ops: vec![
				Op::Send { from: 0, hops: vec![(1, 0)], amount_msat: 30_000_000, policy: ClaimPolicy::Claim },
				Op::Send { from: 1, hops: vec![(0, 0)], amount_msat: 20_000_000, policy: ClaimPolicy::Claim },
			],
			ops_first: true,
			dev: Deviations {
				reorder: None,
				early_op: None,
				async_persist: None,
				async_after: Some(1),
				hold_manager: Some(1),
				complete_reorder: Some(1),
				..Deviations::default()
			},
			k: if th { 3 } else { 2 },
			async_from_start: vec![],
			max_disconnects: 0,
			deferred: vec![0, 1],
		});
		v.push(C09Scn {
			name: format!("{}-ab-open-flow-deferred", n),
			ct,
			nodes: 2,
			ops: vec![
				Op::Open { from: 0, to: 1 },
				Op::ConfirmFunding,
				Op::Send { from: 0, hops: vec![(1, 0)], amount_msat: 50_000_000, policy: ClaimPolicy::Claim },
			],
			ops_first: false,
			dev: Deviations {
				reorder: Some(1),
				early_op: Some(1),
				disconnect: Some(1),
				hold_manager: Some(1),
				complete_reorder: None,
				..Deviations::default()
			},
			k: if th { 2 } else { 1 },
			async_from_start: vec![],
			max_disconnects: 1,
			deferred: vec![0, 1],
		});
	}
	v
}

pub fn to_runner(s: C09Scn) -> Scenario {
	let cfg = Config { max_deviations: s.k, horizon: 800, ..Config::default() };
	let desc = json!({"check": "C09", "name": s.name});
	let name = s.name.clone();
	Scenario { name, cfg, factory: Box::new(move || build(&s)), desc }
}

pub fn run(args: &Args) -> i32 {
	let tier = args.tier;
	let cap = Duration::from_secs(if args.wall_cap_s > 0 {
		args.wall_cap_s
	} else if tier.is_thorough() {
		1800
	} else {
		50
	});
	let mut ev = Evidence::new("C09", tier, args.seed, Level::ModelChecking);
	let scns: Vec<Scenario> = scenarios(tier)
		.into_iter()
		.filter(|s| args.opt("only").map(|o| s.name.contains(o)).unwrap_or(true))
		.map(to_runner)
		.collect();
	// the big enumerations last, so that a wall cap (loaded machine) cuts them rather than a small scenario
	let mut scns = scns;
	scns.sort_by_key(|s| if s.name.contains("open-flow") { 3 } else if s.name.contains("abc-forward-claim") || s.name.contains("blocked-updates") { 2 } else { 1 });
	let r = run_scenarios("C09", args, scns, cap);
	fill_model_checking_evidence(&mut ev, &r);
	if args.opt("only").is_none() {
		crate::runner::require_witnesses(
			&mut ev,
			&[
				"c09-update-in-progress",
				"c09-two-updates-outstanding",
				"c09-initial-persist-in-progress",
				"c09-commitment-signed-checked",
				"c09-revoke-and-ack-checked",
				"c09-fulfill-checked",
				"deferred-flush",
				"deferred-operations-queued-while-background-task-stalled",
				"store-turns-async-inside-a-deferred-flush",
				"deferred-flush-of-several-operations",
			],
		);
	} else {
		ev.set("witnesses", json!(crate::runner::witnesses()));
	}
	ev.assume("the Persist contract is respected by the harness: Completed→InProgress at any time, back only after a restart; ids completed in any order");
	ev.assume("deferred ChainMonitor mode is driven the way lightning-background-processor drives it: when the manager needs persisting, count the queued operations, write the manager, flush that many (the task may stall for any length of time)");
	mc_common::findings::conclude("C09", &r.violations, &mut ev)
}

pub fn replay(name: &str, actions: &[String]) -> i32 {
	for tier in [Tier::Quick, Tier::Thorough] {
		if let Some(s) = scenarios(tier).into_iter().find(|s| s.name == name) {
			let r = mc_common::explore::replay::<WorldSys>(&move || build(&s), actions, false);
			println!("{:?}", r);
			return match r {
				Ok(Ok(_)) => 0,
				_ => 1,
			};
		}
	}
	mc_common::cli::die("unknown scenario in replay file")
}
