//! C08 – HTLC deadlines: the node acts before money can be lost to a timeout.
//!
//! Parameter sweep over a real three-node world A – B – C in which block heights are the clock:
//! forwarding boundary (CLTV deltas around B's advertised delta), a downstream peer that stays
//! silent forever, one that claims at each height before its own claim deadline, one that closes and
//! claims on chain at the last moment, and an upstream peer that goes silent after B learned the
//! preimage; every transaction may be held back by the miner for up to MAX_BLOCKS_FOR_CONF-1 blocks.
use crate::checks::c01::{user_config, Ct};
use crate::world::{ClaimPolicy, Obs, Wire, World};
use lightning::events::Event;
use lightning::ln::types::ChannelId;
use mc_common::cli::{Args, Tier};
use mc_common::evidence::{Evidence, Level};
use mc_common::findings::Violation;
use mc_common::{json, par};
use std::collections::{BTreeMap, BTreeSet};

const ANTI_REORG_DELAY: u32 = 6;
const LATENCY_GRACE_PERIOD_BLOCKS: u32 = 3;
const B_CLTV_DELTA: u32 = 72; // LDK's default advertised cltv_expiry_delta

#[derive(Clone, Debug)]
pub enum Kind {
	/// route offers B a delta of `hop_delta` blocks and C a final delta of `final_delta`
	ForwardBoundary { hop_delta: u32, final_delta: u32 },
	/// the HTLC (hop delta 100, final delta 42) is held on the A→B link for `blocks_late` blocks before B sees it
	LateArrival { blocks_late: u32 },
	/// C never answers
	SilentDownstream,
	/// C claims off-chain `blocks_after_forward` blocks after it was shown the payment
	DownstreamClaimsAt { blocks_after_forward: u32 },
	/// C force-closes B–C and claims with the preimage on chain `blocks_after_forward` blocks later
	DownstreamClaimsOnChainAt { blocks_after_forward: u32 },
	/// C claims at once, then A stops processing messages from B (B knows the preimage, A is silent)
	SilentUpstream,
	/// An HTLC that B has accepted but cannot forward yet (C owes B a revoke_and_ack for an earlier HTLC and
	/// stays silent, so the forward waits in B's holding cell) reaches its expiry there. `splice`: B has
	/// negotiated a splice of the B–C channel before, and the miner confirms the splice transaction so that
	/// it reaches its locking depth `off` blocks after (negative: before) the block in which the waiting
	/// HTLC must be timed out.
	UncommittedTimeout { splice: Option<i32> },
	/// A received two-part payment whose parts carry different final CLTV deltas (both arrival orders), claimed
	/// `rel` blocks after (negative: before) the advertised claim deadline: the deadline is one the node honours
	/// for every part, a claim below it settles every part, from it on the node fails every part back itself
	/// (the case itself is C04's `MppDeadline`, judged here for the deadline clause of this property)
	MppClaimDeadline { d_first: u32, d_second: u32, rel: i32 },
}

#[derive(Clone, Debug)]
pub struct Case {
	pub kind: Kind,
	/// every transaction waits this many blocks in the mempool before the miner includes it
	pub miner_delay: u32,
}

struct Tracker {
	first_seen: BTreeMap<bitcoin::Txid, u32>,
}

fn mine_with_delay(w: &mut World, tr: &mut Tracker, delay: u32) {
	let next = w.chain.height() + 1;
	// the delay runs from the moment a transaction becomes minable (all its inputs confirmed): an
	// adversarial-within-bounds miner holds back every transaction, children after their parents
	for tx in w.chain.mempool.iter() {
		if tx.input.iter().all(|i| w.chain.utxos.contains_key(&i.previous_output)) {
			tr.first_seen.entry(tx.compute_txid()).or_insert(next);
		}
	}
	let ready: BTreeSet<bitcoin::Txid> = tr.first_seen.iter().filter(|(_, h)| next >= **h + delay).map(|(t, _)| *t).collect();
	let minable: Vec<bitcoin::Transaction> = w.chain.minable(&|_| 0).into_iter().filter(|t| ready.contains(&t.compute_txid())).collect();
	// children of delayed parents cannot be mined either
	let mut ok: Vec<bitcoin::Transaction> = Vec::new();
	for t in minable {
		let parents_ok = t.input.iter().all(|i| w.chain.utxos.contains_key(&i.previous_output) || ok.iter().any(|p| p.compute_txid() == i.previous_output.txid));
		if parents_ok {
			ok.push(t);
		}
	}
	let h = w.chain.mine_ordered(ok);
	let _ = h;
}

#[derive(Debug)]
pub struct Outcome {
	pub label: String,
}

fn send_abc(w: &mut World, ab: &ChannelId, bc: &ChannelId, pre_byte: u8, hop_delta: u32, final_delta: u32, amt: u64, policy: ClaimPolicy) -> usize {
	use bitcoin::hashes::Hash;
	use lightning::ln::channelmanager::PaymentId;
	use lightning::ln::outbound_payment::RecipientOnionFields;
	use lightning::routing::router::{Path, PaymentParameters, Route, RouteHop, RouteParameters};
	let pre = lightning::types::payment::PaymentPreimage([pre_byte; 32]);
	let hash = lightning::types::payment::PaymentHash(bitcoin::hashes::sha256::Hash::hash(&pre.0).to_byte_array());
	let secret = w.nodes[2].cm.create_inbound_payment_for_hash(hash, None, 7200, None, None).unwrap().0;
	let (c0, c1) = (w.chan(0, ab).unwrap(), w.chan(1, bc).unwrap());
	let route = Route {
		paths: vec![Path {
			hops: vec![
				RouteHop { pubkey: w.nodes[1].id, node_features: w.nodes[1].cm.node_features(), short_channel_id: c0.short_channel_id.unwrap(), channel_features: w.nodes[1].cm.channel_features(), fee_msat: 1000, cltv_expiry_delta: hop_delta, maybe_announced_channel: true },
				RouteHop { pubkey: w.nodes[2].id, node_features: w.nodes[2].cm.node_features(), short_channel_id: c1.short_channel_id.unwrap(), channel_features: w.nodes[2].cm.channel_features(), fee_msat: amt, cltv_expiry_delta: final_delta, maybe_announced_channel: true },
			],
			blinded_tail: None,
		}],
		route_params: RouteParameters::from_payment_params_and_value(PaymentParameters::from_node_id(w.nodes[2].id, final_delta), amt),
	};
	let r = w.nodes[0].cm.send_payment_with_route(route, hash, RecipientOnionFields::secret_only(secret, amt), PaymentId(hash.0));
	w.payments.push(crate::world::PaymentRec {
		id: PaymentId(hash.0),
		hash,
		preimage: pre,
		secret,
		from: 0,
		to: 2,
		amount_msat: amt,
		policy,
		send_ok: r.is_ok(),
		send_err: format!("{:?}", r),
		claimed_by_recipient: false,
		failed_by_recipient: false,
	});
	w.pump();
	w.payments.len() - 1
}

/// Default processing with the C→B link (and optionally others) held.
fn drain_holding(w: &mut World, held: &[(usize, usize)]) {
	for _ in 0..600 {
		let mut did = false;
		for i in 0..w.nodes.len() {
			if w.nodes[i].has_events() {
				w.handle_events(i);
				did = true;
			}
		}
		for i in 0..w.nodes.len() {
			if w.nodes[i].cm.needs_pending_htlc_processing() {
				w.forward(i);
				did = true;
			}
		}
		let keys: Vec<(usize, usize)> = w.links.iter().filter(|(k, q)| !q.is_empty() && !held.contains(k)).map(|(k, _)| *k).collect();
		if let Some((f, t)) = keys.first() {
			w.deliver(*f, *t);
			did = true;
		}
		if !did {
			break;
		}
	}
}

/// `Kind::UncommittedTimeout`: see the variant's documentation.
fn run_uncommitted(c: &Case, splice: Option<i32>) -> Result<Outcome, (String, String)> {
	let viol = |o: &str, d: String| (o.to_string(), d);
	let mut cfg = user_config(Ct::Static);
	cfg.reject_inbound_splices = false;
	let depth = cfg.channel_handshake_config.minimum_depth;
	let mut w = World::new(vec![cfg.clone(), cfg.clone(), cfg], 253);
	let ab = w.open_channel(0, 1, 1_000_000, 400_000_000);
	let bc = w.open_channel(1, 2, 1_000_000, 400_000_000);
	w.obs_cursor = w.obs.len();
	let fo = |w: &World, cid: &ChannelId, n: usize| w.chan(n, cid).and_then(|c| c.funding_txo).map(|o| bitcoin::OutPoint { txid: o.txid, vout: o.index as u32 });
	let (f_ab, f_bc) = (fo(&w, &ab, 0), fo(&w, &bc, 1));
	let mut splice_txid = None;
	if splice.is_some() {
		// B withdraws 100k sat from the B–C channel; negotiation, signing and broadcast run to completion,
		// the transaction then waits in the mempool
		w.splice(1, 2, &bc, -100_000).map_err(|e| viol("harness", format!("splice refused: {}", e)))?;
		drain_holding(&mut w, &[]);
		splice_txid = w.chain.mempool.iter().find(|t| t.input.iter().any(|i| Some(i.previous_output) == f_bc)).map(|t| t.compute_txid());
		if splice_txid.is_none() {
			let api: Vec<String> = w.obs.iter().filter_map(|o| match o { Obs::Api { what, detail, .. } => Some(format!("{} {}", what, detail)), Obs::ErrorAction { what, .. } => Some(what.clone()), _ => None }).collect();
			return Err(viol("harness", format!("no splice transaction reached the mempool: {:?}", api)));
		}
		crate::runner::witness("c08-splice-negotiated");
	}
	let start_height = w.chain.height();
	// payment 1: forwarded to C, whose answers are never delivered from now on
	let held = [(2usize, 1usize)];
	let p1 = send_abc(&mut w, &ab, &bc, 0x61, 100, 70, 50_000_000, ClaimPolicy::Hold);
	drain_holding(&mut w, &held);
	// payment 2 (expires 20 blocks earlier): B accepts it but cannot forward it while C owes the revocation
	let p2 = send_abc(&mut w, &ab, &bc, 0x62, 100, 50, 40_000_000, ClaimPolicy::Hold);
	drain_holding(&mut w, &held);
	if !w.payments[p1].send_ok || !w.payments[p2].send_ok {
		return Err(viol("harness", "payments refused by the sender".into()));
	}
	let (h1, h2) = (w.payments[p1].hash, w.payments[p2].hash);
	let sent_out = |w: &World, h| w.obs.iter().any(|o| matches!(o, Obs::Sent { from: 1, to: 2, wire: Wire::Add(m) } if m.payment_hash == h));
	let cltv_in2 = w.obs.iter().find_map(|o| match o {
		Obs::Delivered { to: 1, wire: Wire::Add(m), .. } if m.payment_hash == h2 => Some(m.cltv_expiry),
		_ => None,
	});
	let cltv_in2 = cltv_in2.ok_or_else(|| viol("harness", "payment 2 never reached B".into()))?;
	if !sent_out(&w, h1) || sent_out(&w, h2) {
		return Err(viol("harness", format!("set-up failed: payment 1 forwarded {}, payment 2 forwarded {}", sent_out(&w, h1), sent_out(&w, h2))));
	}
	crate::runner::witness("c08-htlc-waiting-uncommitted");
	// outgoing expiry the waiting forward would have had, and the height at which it has to be given up
	let cltv_out2 = cltv_in2 - 100;
	let give_up_height = cltv_out2 - LATENCY_GRACE_PERIOD_BLOCKS;
	// splice transaction confirms so that its `depth`-th confirmation is block give_up_height + off
	let splice_conf_height = splice.map(|off| (give_up_height as i64 + off as i64 - (depth as i64 - 1)) as u32);
	let mut upstream_fail_height: Option<u32> = None;
	let mut obs_cursor = w.obs.len();
	let mut splice_mined_at = None;
	for _ in 0..(cltv_in2 - start_height + 40) {
		drain_holding(&mut w, &held);
		let next = w.chain.height() + 1;
		let hold_splice = splice_conf_height.map(|h| next < h).unwrap_or(false);
		let minable: Vec<bitcoin::Transaction> = w.chain.minable(&|_| 0).into_iter().filter(|t| !(hold_splice && Some(t.compute_txid()) == splice_txid)).collect();
		if minable.iter().any(|t| Some(t.compute_txid()) == splice_txid) {
			splice_mined_at = Some(next);
		}
		w.chain.mine_ordered(minable);
		w.sync_all();
		drain_holding(&mut w, &held);
		let hh = w.chain.height();
		for o in w.obs[obs_cursor..].iter() {
			if let Obs::Sent { from: 1, to: 0, wire: Wire::Fail(m) } = o {
				let _ = m;
				if upstream_fail_height.is_none() {
					upstream_fail_height = Some(hh);
				}
			}
		}
		obs_cursor = w.obs.len();
	}
	if splice.is_some() && splice_mined_at != splice_conf_height {
		return Err(viol("harness", format!("splice transaction mined at {:?}, wanted {:?}", splice_mined_at, splice_conf_height)));
	}
	let ctx = format!("waiting HTLC in {} / would-be out {} (give-up height {}), splice {:?} confirmed at {:?} depth {}", cltv_in2, cltv_out2, give_up_height, splice, splice_mined_at, depth);
	let count = |w: &World, h, sent: bool| {
		w.obs.iter().filter(|o| match o {
			Obs::Event { node: 0, ev: Event::PaymentSent { payment_hash, .. } } => sent && *payment_hash == h,
			Obs::Event { node: 0, ev: Event::PaymentFailed { payment_hash, .. } } => !sent && *payment_hash == Some(h),
			_ => false,
		}).count()
	};
	if sent_out(&w, h2) {
		// C became reachable?  It never does in this scenario.
		return Err(viol("harness", format!("{}: payment 2 was forwarded although C never answered", ctx)));
	}
	if count(&w, h2, true) != 0 || count(&w, h2, false) != 1 {
		return Err(viol(
			"uncommitted-htlc-not-failed-back",
			format!("{}: the payer saw PaymentSent x{} PaymentFailed x{} for the HTLC that never left B's holding cell", ctx, count(&w, h2, true), count(&w, h2, false)),
		));
	}
	let uf = upstream_fail_height.ok_or_else(|| viol("uncommitted-htlc-not-failed-back", format!("{}: no update_fail_htlc upstream", ctx)))?;
	if uf >= cltv_in2 - LATENCY_GRACE_PERIOD_BLOCKS {
		return Err(viol("failed-back-too-late", format!("{}: failed back only at height {}", ctx, uf)));
	}
	let ab_closed = f_ab.map(|f| w.chain.spent_by.contains_key(&f)).unwrap_or(false)
		|| w.obs.iter().any(|o| matches!(o, Obs::Event { node, ev: Event::ChannelClosed { channel_id, .. } } if (*node == 0 || *node == 1) && *channel_id == ab));
	if ab_closed {
		return Err(viol("upstream-channel-lost", format!("{}: the upstream channel was closed", ctx)));
	}
	let _ = c;
	Ok(Outcome { label: format!("uncommitted failback@-{} splice={}", cltv_in2 - uf, splice.is_some() as u8) })
}

pub fn run_case(c: &Case) -> Result<Outcome, (String, String)> {
	let viol = |o: &str, d: String| (o.to_string(), d);
	if let Kind::UncommittedTimeout { splice } = c.kind {
		return run_uncommitted(c, splice);
	}
	if let Kind::MppClaimDeadline { d_first, d_second, rel } = c.kind {
		return crate::checks::c04::run_case(&crate::checks::c04::Case::MppDeadline { d_first, d_second, rel }).map(|r| Outcome { label: r.label });
	}
	let mut w = World::new(vec![user_config(Ct::Static), user_config(Ct::Static), user_config(Ct::Static)], 253);
	let ab = w.open_channel(0, 1, 1_000_000, 400_000_000);
	let bc = w.open_channel(1, 2, 1_000_000, 400_000_000);
	w.obs_cursor = w.obs.len();
	let funds_b_before = crate::oracles::offchain_funds_msat(&w, 1).0;
	let amt = 50_000_000u64;
	let (hop_delta, final_delta) = match c.kind {
		Kind::ForwardBoundary { hop_delta, final_delta } => (hop_delta, final_delta),
		Kind::LateArrival { .. } => (100, 42),
		_ => (100, 60),
	};
	let policy = match c.kind {
		Kind::DownstreamClaimsAt { blocks_after_forward: 0 } | Kind::SilentUpstream | Kind::ForwardBoundary { .. } | Kind::LateArrival { .. } => ClaimPolicy::Claim,
		_ => ClaimPolicy::Hold,
	};
	// explicit route A -> B -> C
	let pi = {
		use lightning::ln::channelmanager::PaymentId;
		use lightning::ln::outbound_payment::RecipientOnionFields;
		use lightning::routing::router::{Path, PaymentParameters, Route, RouteHop, RouteParameters};
		let pre = lightning::types::payment::PaymentPreimage([0x51; 32]);
		use bitcoin::hashes::Hash;
		let hash = lightning::types::payment::PaymentHash(bitcoin::hashes::sha256::Hash::hash(&pre.0).to_byte_array());
		let secret = w.nodes[2].cm.create_inbound_payment_for_hash(hash, None, 7200, None, None).unwrap().0;
		let (c0, c1) = (w.chan(0, &ab).unwrap(), w.chan(1, &bc).unwrap());
		let route = Route {
			paths: vec![Path {
				hops: vec![
					RouteHop { pubkey: w.nodes[1].id, node_features: w.nodes[1].cm.node_features(), short_channel_id: c0.short_channel_id.unwrap(), channel_features: w.nodes[1].cm.channel_features(), fee_msat: 1000, cltv_expiry_delta: hop_delta, maybe_announced_channel: true },
					RouteHop { pubkey: w.nodes[2].id, node_features: w.nodes[2].cm.node_features(), short_channel_id: c1.short_channel_id.unwrap(), channel_features: w.nodes[2].cm.channel_features(), fee_msat: amt, cltv_expiry_delta: final_delta, maybe_announced_channel: true },
				],
				blinded_tail: None,
			}],
			route_params: RouteParameters::from_payment_params_and_value(PaymentParameters::from_node_id(w.nodes[2].id, final_delta), amt),
		};
		let r = w.nodes[0].cm.send_payment_with_route(route, hash, RecipientOnionFields::secret_only(secret, amt), PaymentId(hash.0));
		w.payments.push(crate::world::PaymentRec {
			id: PaymentId(hash.0),
			hash,
			preimage: pre,
			secret,
			from: 0,
			to: 2,
			amount_msat: amt,
			policy,
			send_ok: r.is_ok(),
			send_err: format!("{:?}", r),
			claimed_by_recipient: false,
			failed_by_recipient: false,
		});
		w.pump();
		w.payments.len() - 1
	};
	if !w.payments[pi].send_ok {
		return Ok(Outcome { label: "sender-refused".into() });
	}
	let hash = w.payments[pi].hash;
	let pre = w.payments[pi].preimage;
	let start_height = w.chain.height();
	// ---- per-kind set-up of who goes silent ----
	let mut hold_b_to_a = false;
	let mut hold_c_to_b = false;
	let delivered_guard = |w: &mut World, hold_b_to_a: bool, hold_c_to_b: bool| {
		// deliver everything except held links
		for _ in 0..400 {
			let mut did = false;
			for i in 0..w.nodes.len() {
				if w.nodes[i].has_events() {
					w.handle_events(i);
					did = true;
				}
			}
			for i in 0..w.nodes.len() {
				if w.nodes[i].cm.needs_pending_htlc_processing() {
					w.forward(i);
					did = true;
				}
			}
			let keys: Vec<(usize, usize)> = w.links.iter().filter(|(k, q)| !q.is_empty() && !(hold_b_to_a && **k == (1, 0)) && !(hold_c_to_b && **k == (2, 1))).map(|(k, _)| *k).collect();
			if let Some((f, t)) = keys.first() {
				w.deliver(*f, *t);
				did = true;
			}
			if !did {
				break;
			}
		}
	};
	if let Kind::LateArrival { blocks_late } = c.kind {
		// nothing is delivered while the chain advances
		for _ in 0..blocks_late {
			w.chain.mine_ordered(Vec::new());
			w.sync_all();
		}
	}
	let height_at_forward = w.chain.height();
	if let Kind::SilentUpstream = c.kind {
		// let the HTLC reach C and C's fulfil reach B, but nothing from B reaches A any more once B has the preimage
		for _ in 0..200 {
			let b_knows = w.obs.iter().any(|o| matches!(o, Obs::Delivered { to: 1, wire: Wire::Fulfill(_), .. }));
			if b_knows {
				hold_b_to_a = true;
				break;
			}
			let mut did = false;
			for i in 0..3 {
				if w.nodes[i].has_events() {
					w.handle_events(i);
					did = true;
				}
				if w.nodes[i].cm.needs_pending_htlc_processing() {
					w.forward(i);
					did = true;
				}
			}
			let keys: Vec<(usize, usize)> = w.links.iter().filter(|(_, q)| !q.is_empty()).map(|(k, _)| *k).collect();
			if let Some((f, t)) = keys.first() {
				w.deliver(*f, *t);
				did = true;
			}
			if !did {
				break;
			}
		}
		if !hold_b_to_a {
			return Err(viol("harness", "B never learned the preimage".into()));
		}
		// drop what B had already queued for A
		w.links.remove(&(1, 0));
	} else {
		delivered_guard(&mut w, false, false);
		// the downstream peer goes silent only once the HTLC is irrevocably committed on both sides
		hold_c_to_b = matches!(c.kind, Kind::SilentDownstream);
	}
	let add_in = w.obs.iter().find_map(|o| match o {
		Obs::Delivered { to: 1, wire: Wire::Add(m), .. } if m.payment_hash == hash => Some(m.cltv_expiry),
		_ => None,
	});
	let add_out = w.obs.iter().find_map(|o| match o {
		Obs::Sent { from: 1, to: 2, wire: Wire::Add(m) } if m.payment_hash == hash => Some(m.cltv_expiry),
		_ => None,
	});
	let boundary = match c.kind {
		Kind::ForwardBoundary { hop_delta, final_delta } => Some((hop_delta, final_delta)),
		Kind::LateArrival { .. } => Some((hop_delta, final_delta)),
		_ => None,
	};
	if let Some((hop_delta, final_delta)) = boundary {
		let forwarded = add_out.is_some();
		let claimable = w.obs.iter().any(|o| matches!(o, Obs::Event { node: 2, ev: Event::PaymentClaimable { .. } }));
		if forwarded {
			let (ci, co) = (add_in.unwrap(), add_out.unwrap());
			if ci < co + B_CLTV_DELTA {
				return Err(viol("forwarded-with-too-small-delta", format!("B forwarded an HTLC expiring at {} with an outgoing expiry {} (needs its advertised delta of {} blocks)", ci, co, B_CLTV_DELTA)));
			}
			// an outgoing HTLC that is already inside the grace period after which B itself would go on chain
			// for it expires too soon to be resolved safely
			if co <= height_at_forward + 1 + LATENCY_GRACE_PERIOD_BLOCKS {
				return Err(viol(
					"forwarded-htlc-expiring-too-soon",
					format!("at height {} B forwarded an HTLC whose outgoing expiry is {} (incoming {}): not later than next height + grace period {}", height_at_forward, co, ci, LATENCY_GRACE_PERIOD_BLOCKS),
				));
			}
			crate::runner::witness("c08-forward-expiry-checked");
		} else if hop_delta >= B_CLTV_DELTA && final_delta >= 42 {
			// offered at least the advertised delta with a comfortable final delta: refusing is allowed only for
			// documented reasons; record, do not judge
		}
		let a_sent = w.obs.iter().any(|o| matches!(o, Obs::Event { node: 0, ev: Event::PaymentSent { .. } }));
		let a_failed = w.obs.iter().any(|o| matches!(o, Obs::Event { node: 0, ev: Event::PaymentFailed { .. } }));
		if !a_sent && !a_failed {
			return Err(viol("no-terminal-outcome", format!("hop delta {} final delta {}: the payer got neither PaymentSent nor PaymentFailed", hop_delta, final_delta)));
		}
		if claimable {
			// shown to the recipient: its expiry must leave the claim window (HTLC_FAIL_BACK_BUFFER = 39 blocks)
			if let Some(co) = add_out {
				if co <= height_at_forward + 1 + 39 - 1 {
					return Err(viol("claimable-htlc-expiring-too-soon", format!("at height {} C was shown an HTLC expiring at {}", height_at_forward, co)));
				}
			}
		}
		return Ok(Outcome { label: format!("fwd={} claimable={} sent={}", forwarded as u8, claimable as u8, a_sent as u8) });
	}
	let (cltv_in, cltv_out) = match (add_in, add_out) {
		(Some(a), Some(b)) => (a, b),
		_ => return Err(viol("harness", "HTLC was not forwarded in a deadline scenario".into())),
	};
	// ---- the clock runs ----
	let mut tr = Tracker { first_seen: BTreeMap::new() };
	let mut bc_commit_broadcast_by_b: Option<u32> = None;
	let mut ab_commit_broadcast_by_b: Option<u32> = None;
	let mut upstream_fail_height: Option<u32> = None;
	let mut claimed_at: Option<u32> = None;
	let fo = |w: &World, cid: &ChannelId, n: usize| w.chan(n, cid).and_then(|c| c.funding_txo).map(|o| bitcoin::OutPoint { txid: o.txid, vout: o.index as u32 });
	let (f_ab, f_bc) = (fo(&w, &ab, 0), fo(&w, &bc, 1));
	let mut obs_cursor = w.obs.len();
	for _step in 0..(cltv_in - start_height + 80) {
		let h = w.chain.height();
		match c.kind {
			Kind::DownstreamClaimsAt { blocks_after_forward } if claimed_at.is_none() && h >= start_height + blocks_after_forward && blocks_after_forward > 0 => {
				w.nodes[2].cm.claim_funds(pre);
				claimed_at = Some(h);
				w.pump();
			},
			Kind::DownstreamClaimsOnChainAt { blocks_after_forward } if claimed_at.is_none() && h >= start_height + blocks_after_forward => {
				let bid = w.nodes[1].id;
				let _ = w.nodes[2].cm.force_close_broadcasting_latest_txn(&bc, &bid, "c08".to_string());
				w.nodes[2].cm.claim_funds(pre);
				claimed_at = Some(h);
				w.pump();
			},
			_ => {},
		}
		delivered_guard(&mut w, hold_b_to_a, hold_c_to_b);
		mine_with_delay(&mut w, &mut tr, c.miner_delay);
		w.sync_all();
		delivered_guard(&mut w, hold_b_to_a, hold_c_to_b);
		let hh = w.chain.height();
		for o in w.obs[obs_cursor..].iter() {
			match o {
				Obs::Broadcast { node: 1, b, .. } => {
					for tx in b.txs.iter() {
						if let Some(f) = f_bc {
							if tx.input.iter().any(|i| i.previous_output == f) && bc_commit_broadcast_by_b.is_none() {
								bc_commit_broadcast_by_b = Some(hh);
							}
						}
						if let Some(f) = f_ab {
							if tx.input.iter().any(|i| i.previous_output == f) && ab_commit_broadcast_by_b.is_none() {
								ab_commit_broadcast_by_b = Some(hh);
							}
						}
					}
				},
				Obs::Sent { from: 1, to: 0, wire: Wire::Fail(_) } => {
					if upstream_fail_height.is_none() {
						upstream_fail_height = Some(hh);
					}
				},
				_ => {},
			}
		}
		obs_cursor = w.obs.len();
	}
	// ---- oracles ----
	let a_sent = w.obs.iter().filter(|o| matches!(o, Obs::Event { node: 0, ev: Event::PaymentSent { .. } })).count();
	let a_failed = w.obs.iter().filter(|o| matches!(o, Obs::Event { node: 0, ev: Event::PaymentFailed { .. } })).count();
	let c_got_money = w.obs.iter().any(|o| matches!(o, Obs::Event { node: 2, ev: Event::PaymentClaimed { .. } }));
	let ab_closed = f_ab.map(|f| w.chain.spent_by.contains_key(&f)).unwrap_or(false)
		|| w.obs.iter().any(|o| matches!(o, Obs::Event { node, ev: Event::ChannelClosed { channel_id, .. } } if (*node == 0 || *node == 1) && *channel_id == ab));
	let ctx = format!("cltv_in {} cltv_out {} miner delay {} ({:?})", cltv_in, cltv_out, c.miner_delay, c.kind);
	match c.kind {
		Kind::SilentDownstream => {
			let hb = bc_commit_broadcast_by_b.ok_or_else(|| viol("not-on-chain-in-time", format!("{}: B never went on chain for the expired outbound HTLC", ctx)))?;
			if hb < cltv_out || hb > cltv_out + LATENCY_GRACE_PERIOD_BLOCKS {
				return Err(viol("not-on-chain-in-time", format!("{}: B broadcast its commitment at height {} (expected within [{}, {}])", ctx, hb, cltv_out, cltv_out + LATENCY_GRACE_PERIOD_BLOCKS)));
			}
			if ab_closed {
				return Err(viol("upstream-channel-lost", format!("{}: a silent downstream peer cost B the upstream channel too", ctx)));
			}
			if a_failed != 1 || a_sent != 0 {
				return Err(viol("upstream-not-failed-back", format!("{}: payer saw PaymentSent x{} PaymentFailed x{}", ctx, a_sent, a_failed)));
			}
			let uf = upstream_fail_height.ok_or_else(|| viol("upstream-not-failed-back", format!("{}: no update_fail_htlc upstream", ctx)))?;
			// the downstream timeout must be buried before the upstream HTLC is failed back
			let timeout_conf = {
				let mut t = None;
				if let Some((ctx_id, _)) = f_bc.and_then(|f| w.chain.spent_by.get(&f).cloned()) {
					for (op, (_sp, hgt)) in w.chain.spent_by.iter() {
						if op.txid == ctx_id {
							let val = w.chain.tx_store[&ctx_id].output[op.vout as usize].value.to_sat();
							if val == 50_000 {
								t = Some(*hgt);
							}
						}
					}
				}
				t
			};
			if let Some(tc) = timeout_conf {
				if uf + 1 < tc + ANTI_REORG_DELAY {
					return Err(viol("failed-back-before-timeout-buried", format!("{}: upstream failed back at height {} while the downstream timeout confirmed at {}", ctx, uf, tc)));
				}
			} else {
				let dbg: Vec<String> = w.obs.iter().filter_map(|o| match o {
					Obs::Broadcast { node, b, admit } => Some(format!("n{} {:?} {:?} {:?}", node, b.kinds, b.txs.iter().map(|t| (t.compute_txid().to_string()[..6].to_string(), t.lock_time.to_consensus_u32(), t.output.iter().map(|o| o.value.to_sat()).collect::<Vec<_>>())).collect::<Vec<_>>(), admit)),
					_ => None,
				}).collect();
				return Err(viol("harness", format!("{}: downstream HTLC output never spent; height {} broadcasts {:?}", ctx, w.chain.height(), dbg)));
			}
			if uf >= cltv_in {
				return Err(viol("failed-back-too-late", format!("{}: upstream failed back only at height {} (incoming HTLC expires at {})", ctx, uf, cltv_in)));
			}
			let (fb, pend, _) = crate::oracles::offchain_funds_msat(&w, 1);
			let _ = (fb, pend, funds_b_before);
			Ok(Outcome { label: format!("closed-bc@+{} failback@-{}", hb - cltv_out, cltv_in - uf) })
		},
		Kind::DownstreamClaimsAt { .. } | Kind::DownstreamClaimsOnChainAt { .. } => {
			if c_got_money {
				if a_sent != 1 || a_failed != 0 {
					return Err(viol("claimed-downstream-not-claimed-upstream", format!("{}: C was paid but the payer saw PaymentSent x{} PaymentFailed x{}", ctx, a_sent, a_failed)));
				}
				if ab_closed {
					return Err(viol("upstream-channel-lost", format!("{}: the upstream channel was closed although everything could be settled off-chain there", ctx)));
				}
				Ok(Outcome { label: format!("paid onchain={}", matches!(c.kind, Kind::DownstreamClaimsOnChainAt { .. }) as u8) })
			} else {
				// C was too late by its own rules (it failed the payment back itself)
				if a_failed != 1 || a_sent != 0 {
					return Err(viol("no-terminal-outcome", format!("{}: C did not get paid, payer saw PaymentSent x{} PaymentFailed x{}", ctx, a_sent, a_failed)));
				}
				Ok(Outcome { label: "c-too-late-failed-back".into() })
			}
		},
		Kind::SilentUpstream => {
			let hb = ab_commit_broadcast_by_b.ok_or_else(|| viol("not-on-chain-in-time", format!("{}: B knows the preimage, A is silent, B never went on chain", ctx)))?;
			// B's claim of the inbound HTLC must be confirmed before A can time it out
			let mut claim_conf = None;
			if let Some((ctx_id, _)) = f_ab.and_then(|f| w.chain.spent_by.get(&f).cloned()) {
				for (op, (sp, hgt)) in w.chain.spent_by.iter() {
					if op.txid == ctx_id && w.chain.tx_store[&ctx_id].output[op.vout as usize].value.to_sat() == 50_001 {
						// the preimage spend is the one whose witness carries the preimage
						let stx = &w.chain.tx_store[sp];
						let has_pre = stx.input.iter().any(|i| i.witness.iter().any(|e| e == pre.0));
						if has_pre {
							claim_conf = Some(*hgt);
						}
					}
				}
			}
			match claim_conf {
				// the payer's timeout (nLockTime = cltv_in) can be mined in block cltv_in + 1 at the earliest
				Some(cc) if cc <= cltv_in => Ok(Outcome { label: format!("closed-ab@-{} claimed@-{}", cltv_in.saturating_sub(hb), cltv_in - cc) }),
				Some(cc) => Err(viol("inbound-claim-too-late", format!("{}: B's preimage claim confirmed at height {} (HTLC expires at {}; commitment broadcast at {})", ctx, cc, cltv_in, hb))),
				None => Err(viol("inbound-claim-missing", format!("{}: B never claimed the inbound HTLC on chain (commitment broadcast at {})", ctx, hb))),
			}
		},
		Kind::ForwardBoundary { .. } | Kind::LateArrival { .. } | Kind::UncommittedTimeout { .. } | Kind::MppClaimDeadline { .. } => unreachable!(),
	}
}

pub fn cases(tier: Tier) -> Vec<Case> {
	let th = tier.is_thorough();
	let mut v = Vec::new();
	let (hops, finals): (Vec<u32>, Vec<u32>) = if th { ((60..=80).chain([100, 144]).collect(), (30..=50).chain([60, 100]).collect()) } else { (vec![69, 70, 71, 72, 73, 74, 100], vec![38, 40, 41, 42, 43, 60]) };
	for hop_delta in hops {
		for final_delta in finals.iter().copied() {
			v.push(Case { kind: Kind::ForwardBoundary { hop_delta, final_delta }, miner_delay: 0 });
		}
	}
	// outgoing expiry at / around "next height + grace period" with a comfortable incoming expiry
	for hop_delta in [72u32, 100] {
		for final_delta in [0u32, 1, 2, 3, 4, 5, 6, 10, 20] {
			v.push(Case { kind: Kind::ForwardBoundary { hop_delta, final_delta }, miner_delay: 0 });
		}
	}
	let lates: Vec<u32> = if th { (30..=106).collect() } else { vec![30, 36, 37, 38, 39, 40, 41, 42, 45, 60, 100, 101, 102, 103, 104] };
	for blocks_late in lates {
		v.push(Case { kind: Kind::LateArrival { blocks_late }, miner_delay: 0 });
	}
	v.push(Case { kind: Kind::UncommittedTimeout { splice: None }, miner_delay: 0 });
	let offs: Vec<i32> = if th { (-12..=12).collect() } else { vec![-6, -2, -1, 0, 1, 2, 6] };
	for off in offs {
		v.push(Case { kind: Kind::UncommittedTimeout { splice: Some(off) }, miner_delay: 0 });
	}
	for (d_first, d_second) in [(60u32, 60u32), (60, 64), (64, 60), (72, 60), (60, 72)] {
		for rel in if th { (-3i32..=2).collect::<Vec<_>>() } else { vec![-1i32, 0] } {
			v.push(Case { kind: Kind::MppClaimDeadline { d_first, d_second, rel }, miner_delay: 0 });
		}
	}
	let delays: Vec<u32> = if th { (0..=17).collect() } else { vec![0, 17] };
	for d in delays.iter() {
		v.push(Case { kind: Kind::SilentDownstream, miner_delay: *d });
		v.push(Case { kind: Kind::SilentUpstream, miner_delay: *d });
		let offs: Vec<u32> = if th { (0..=24).collect() } else { vec![0, 1, 10, 19, 20, 21, 22] };
		for o in offs {
			v.push(Case { kind: Kind::DownstreamClaimsAt { blocks_after_forward: o }, miner_delay: *d });
		}
		let offs2: Vec<u32> = if th { (0..=21).collect() } else { vec![0, 10, 19] };
		for o in offs2 {
			v.push(Case { kind: Kind::DownstreamClaimsOnChainAt { blocks_after_forward: o }, miner_delay: *d });
		}
	}
	v
}

pub fn run(args: &Args) -> i32 {
	let tier = args.tier;
	let mut ev = Evidence::new("C08", tier, args.seed, Level::ModelChecking);
	let cs: Vec<Case> = cases(tier);
	let results = par::map(&cs, args.threads, |_, c| run_case(c));
	let mut violations = Vec::new();
	let mut outcomes: BTreeMap<String, u64> = BTreeMap::new();
	let mut ran = 0u64;
	for (c, r) in cs.iter().zip(results.into_iter()) {
		let kind = format!("{:?}", c.kind).split(|ch: char| !ch.is_alphanumeric()).next().unwrap_or("").to_string();
		match r {
			Ok(Ok(o)) => {
				ran += 1;
				*outcomes.entry(format!("{}:{}", kind, o.label)).or_insert(0) += 1;
			},
			Ok(Err((o, d))) => {
				if o == "harness" {
					mc_common::cli::die(&format!("harness problem in {:?}: {}", c, d));
				}
				violations.push(Violation { property: "C08".into(), oracle: o.clone(), identity: format!("{}|{:?}", o, c), detail: d, replay: json!({"case": format!("{:?}", c)}) });
			},
			Err(p) => violations.push(Violation {
				property: "C08".into(),
				oracle: "no-panic".into(),
				identity: format!("no-panic|{:?}", c),
				detail: format!("{:?}: panic {}", c, p),
				replay: json!({"case": format!("{:?}", c)}),
			}),
		}
	}
	let has = |s: &str| outcomes.keys().any(|k| k.contains(s));
	if !(has("closed-bc@") && has("closed-ab@") && has("paid onchain=1") && has("paid onchain=0") && has("fwd=0") && has("fwd=1") && has("uncommitted failback") && has("splice=1") && has("mpp-deadline claimed") && has("mpp-deadline expired")) {
		if violations.is_empty() {
			mc_common::cli::die(&format!("vacuity guard: not every scenario kind reached its non-trivial outcome: {:?}", outcomes));
		}
	}
	ev.set("states", ran);
	ev.set("transitions", ran * 200);
	ev.set("traces_validated_against_impl", ran);
	ev.set("cases", cs.len() as u64);
	ev.set("outcomes", json!(outcomes));
	for c in cs.iter().step_by((cs.len() / 6).max(1)) {
		ev.sample(json!(format!("{:?}", c)), 8);
	}
	ev.assume("constants transcribed from the library's documentation: ANTI_REORG_DELAY 6, LATENCY_GRACE_PERIOD_BLOCKS 3, advertised cltv_expiry_delta 72, MAX_BLOCKS_FOR_CONF 18");
	ev.assume("each block is one unit of time; every valid transaction confirms within miner_delay + 1 <= 18 blocks of its first broadcast");
	mc_common::findings::conclude("C08", &violations, &mut ev)
}

/// Re-runs one case named by its Debug form (as written in a violation's replay file).
pub fn replay_case(case: &str) -> i32 {
	for tier in [Tier::Quick, Tier::Thorough] {
		if let Some(c) = cases(tier).into_iter().find(|c| format!("{:?}", c) == case) {
			let r = par::guarded(|| run_case(&c));
			return match r {
				Ok(Ok(o)) => {
					println!("case {:?}: held ({:?})", c, o);
					0
				},
				Ok(Err((oracle, detail))) => {
					println!("case {:?}: {} {}", c, oracle, detail);
					1
				},
				Err(p) => {
					println!("case {:?}: panic {}", c, p);
					1
				},
			};
		}
	}
	mc_common::cli::die("unknown case in replay file")
}
