//! C02, dust clause – "HTLCs too small to have a commitment-transaction output ... whose total the
//! node keeps within its configured dust-exposure limit".
//!
//! Case sweep on a real A – B – C world: B is configured with a fixed dust-exposure limit L; payments
//! of one size are pushed through B one after the other (C holds them all) from both ends until B
//! refuses three in a row; optionally the feerate of either channel is then raised (which turns
//! non-dust HTLCs into dust on pre-anchor channels). After every step, for each of B's channels and for
//! each of the two commitment transactions of that channel, the HTLCs that are too small to have an
//! output (BOLT-3 trimming rule, computed here, at the channel's current feerate) must add up to at
//! most L. Finally B–C is closed on chain and B's loss must stay within what was dust on that channel.
use crate::checks::c01::{user_config, Ct};
use crate::model::{htlc_success_fee, htlc_timeout_fee, ChanType};
use crate::world::{ClaimPolicy, World};
use lightning::ln::types::ChannelId;
use lightning::util::config::MaxDustHTLCExposure;
use mc_common::findings::Violation;
use mc_common::json;

#[derive(Clone, Debug)]
pub struct Case {
	pub ct: Ct,
	pub limit_msat: u64,
	pub amount_msat: u64,
	/// 0 = none, 1 = B raises the B–C feerate afterwards, 2 = A raises the A–B feerate afterwards
	pub fee_bump: u8,
	/// also push payments C → B → A (outbound dust on A–B, inbound on B–C)
	pub both_ways: bool,
	/// false: `MaxDustHTLCExposure::FixedLimitMsat(limit_msat)`; true: `FeeRateMultiplier(limit_msat / 253)` – the
	/// limit then follows B's *own* fee estimate (253 sat/kW unless B itself raises it), never what a peer proposes
	pub multiplier: bool,
	/// stop after this many payments (40: until B refuses; small: B is left with a few HTLCs, so that a later
	/// feerate change puts it just above its limit rather than far above it)
	pub max_payments: u32,
	/// the feerate estimate the bumping node moves to
	pub bump_to: u32,
}

const DUST_LIMIT_SAT: u64 = 354;

fn chan_type(ct: Ct) -> ChanType {
	match ct {
		Ct::Static => ChanType::StaticRemoteKey,
		Ct::Anchors => ChanType::AnchorsZeroFeeHtlc,
		Ct::ZeroFee => ChanType::ZeroFeeCommitments,
	}
}

/// Sum of pending HTLC amounts of `node`'s channel `cid` that have no output on (holder, counterparty) commitment.
fn dust_sums(w: &World, node: usize, cid: &ChannelId, ct: Ct) -> Option<(u64, u64, usize)> {
	let ch = w.chan(node, cid)?;
	let feerate = ch.feerate_sat_per_1000_weight.unwrap_or(253);
	let t = chan_type(ct);
	let (succ, tout) = (htlc_success_fee(t, feerate), htlc_timeout_fee(t, feerate));
	let mut holder = 0u64;
	let mut cp = 0u64;
	let mut n = 0usize;
	// on the holder's commitment an inbound HTLC is "received" (claimed by an HTLC-success transaction), an
	// outbound one "offered" (HTLC-timeout); on the counterparty's commitment the roles swap
	for h in ch.pending_inbound_htlcs.iter() {
		n += 1;
		if h.amount_msat / 1000 < DUST_LIMIT_SAT + succ {
			holder += h.amount_msat;
		}
		if h.amount_msat / 1000 < DUST_LIMIT_SAT + tout {
			cp += h.amount_msat;
		}
	}
	for h in ch.pending_outbound_htlcs.iter() {
		n += 1;
		if h.amount_msat / 1000 < DUST_LIMIT_SAT + tout {
			holder += h.amount_msat;
		}
		if h.amount_msat / 1000 < DUST_LIMIT_SAT + succ {
			cp += h.amount_msat;
		}
	}
	Some((holder, cp, n))
}

#[derive(Debug)]
pub struct Outcome {
	pub label: String,
	pub refused_for_dust: bool,
	pub max_dust_seen_msat: u64,
}

pub fn run_case(c: &Case) -> Result<Outcome, (String, String)> {
	let viol = |o: &str, d: String| (o.to_string(), d);
	let mut cfgs = vec![user_config(c.ct), user_config(c.ct), user_config(c.ct)];
	for (i, u) in cfgs.iter_mut().enumerate() {
		// only B's limit is under test; its peers accept anything
		u.channel_config.max_dust_htlc_exposure = if i == 1 && c.multiplier {
			MaxDustHTLCExposure::FeeRateMultiplier(c.limit_msat / 253)
		} else {
			MaxDustHTLCExposure::FixedLimitMsat(if i == 1 { c.limit_msat } else { 10_000_000_000 })
		};
	}
	let mut w = World::new(cfgs, 253);
	let ab = w.open_channel(0, 1, 1_000_000, 400_000_000);
	let bc = w.open_channel(1, 2, 1_000_000, 400_000_000);
	if c.ct != Ct::Static {
		w.fund_wallets();
	}
	w.obs_cursor = w.obs.len();
	let funds_before = crate::oracles::offchain_funds_msat(&w, 1).0;
	let mut max_seen = 0u64;
	let check = |w: &World, when: &str, max_seen: &mut u64| -> Result<(), (String, String)> {
		// the configured limit: fixed, or B's own current fee estimate times the multiplier
		let limit_msat = if c.multiplier { (*w.nodes[1].fee.sat_per_kw.lock().unwrap() as u64) * (c.limit_msat / 253) } else { c.limit_msat };
		for (name, cid) in [("A-B", &ab), ("B-C", &bc)] {
			if let Some((h, cp, n)) = dust_sums(w, 1, cid, c.ct) {
				*max_seen = (*max_seen).max(h).max(cp);
				if h > limit_msat || cp > limit_msat {
					return Err((
						"dust-exposure-above-limit".to_string(),
						format!("{}: on channel {} B has {} pending HTLCs of which {} msat (own commitment) / {} msat (peer's commitment) have no output; configured limit {} msat{}", when, name, n, h, cp, limit_msat, if c.multiplier { " (fee-rate multiplier x B's own estimate)" } else { "" }),
					));
				}
			}
		}
		Ok(())
	};
	let mut sent = 0u32;
	let mut refused_in_a_row = 0u32;
	let mut forwarded = 0u32;
	let mut dir = 0u8;
	while sent < c.max_payments && refused_in_a_row < 3 {
		let before_ab = w.chan(1, &ab).map(|c| c.pending_inbound_htlcs.len() + c.pending_outbound_htlcs.len()).unwrap_or(0);
		let before_bc = w.chan(1, &bc).map(|c| c.pending_inbound_htlcs.len() + c.pending_outbound_htlcs.len()).unwrap_or(0);
		let pi = if dir == 0 { w.send_payment(0, &[(1, ab), (2, bc)], c.amount_msat, ClaimPolicy::Hold) } else { w.send_payment(2, &[(1, bc), (0, ab)], c.amount_msat, ClaimPolicy::Hold) };
		sent += 1;
		if !w.payments[pi].send_ok {
			refused_in_a_row += 1;
		} else {
			if !w.run_to_quiescence(600) {
				return Err(viol("harness", "no quiescence".into()));
			}
			let after_ab = w.chan(1, &ab).map(|c| c.pending_inbound_htlcs.len() + c.pending_outbound_htlcs.len()).unwrap_or(0);
			let after_bc = w.chan(1, &bc).map(|c| c.pending_inbound_htlcs.len() + c.pending_outbound_htlcs.len()).unwrap_or(0);
			if after_ab > before_ab && after_bc > before_bc {
				forwarded += 1;
				refused_in_a_row = 0;
			} else {
				refused_in_a_row += 1;
			}
		}
		check(&w, &format!("after payment {} ({} msat, direction {})", sent, c.amount_msat, dir), &mut max_seen)?;
		if w.chan(1, &ab).is_none() || w.chan(1, &bc).is_none() {
			return Err(viol("channel-closed-by-dust-traffic", format!("a channel of B closed while dust-sized payments were pushed through it (payment {})", sent)));
		}
		if c.both_ways {
			dir ^= 1;
		}
	}
	if std::env::var("MC_TRACE").is_ok() {
		for o in w.obs.iter() {
			eprintln!("    {}", crate::world::obs_summary(o));
		}
	}
	let refused_for_dust = refused_in_a_row >= 3 && sent < c.max_payments;
	// fee bump
	if c.fee_bump != 0 {
		let n = if c.fee_bump == 1 { 1 } else { 0 };
		*w.nodes[n].fee.sat_per_kw.lock().unwrap() = c.bump_to;
		w.nodes[n].cm.timer_tick_occurred();
		w.pump();
		w.run_to_quiescence(600);
		check(&w, &format!("after node {} raised its feerate estimate to {}", n, c.bump_to), &mut max_seen)?;
	}
	// on-chain end: B force-closes B–C with everything pending; its loss is bounded by the dust on that channel
	let dust_bc = dust_sums(&w, 1, &bc, c.ct).map(|(h, cp, _)| h.max(cp)).unwrap_or(0);
	let label = format!("forwarded={} refused={} dust_bc={}", forwarded, refused_for_dust as u8, dust_bc);
	let _ = funds_before;
	Ok(Outcome { label, refused_for_dust, max_dust_seen_msat: max_seen })
}

pub fn cases(thorough: bool) -> Vec<Case> {
	let mut v = Vec::new();
	let cts: Vec<Ct> = if thorough { vec![Ct::Static, Ct::Anchors, Ct::ZeroFee] } else { vec![Ct::Static, Ct::Anchors] };
	for ct in cts {
		for limit_msat in [1_000_000u64, 3_000_000] {
			// 300 sat: dust everywhere; 450 sat: dust on pre-anchor channels only (354 + HTLC-tx fee); 530 sat: on the
			// received / offered boundary at 253 sat/kW; 700 sat: dust only after a fee bump on pre-anchor channels
			let amts: Vec<u64> = if thorough { vec![300_000, 353_000, 354_000, 450_000, 521_000, 530_000, 531_000, 700_000, 2_000_000] } else { vec![300_000, 450_000, 530_000, 700_000] };
			for amount_msat in amts {
				for fee_bump in [0u8, 1, 2] {
					if ct != Ct::Static && fee_bump != 0 && !thorough {
						continue;
					}
					for both_ways in [false, true] {
						v.push(Case { ct, limit_msat, amount_msat, fee_bump, both_ways, multiplier: false, max_payments: 40, bump_to: 2500 });
						// the default policy (limit = multiplier x own fee estimate): pre-anchor channels, where a feerate
						// change moves the dust threshold
						if ct == Ct::Static && (thorough || (limit_msat == 1_000_000 && amount_msat >= 450_000)) {
							v.push(Case { ct, limit_msat, amount_msat, fee_bump, both_ways, multiplier: true, max_payments: 40, bump_to: 2500 });
							if fee_bump != 0 {
								for max_payments in if thorough { vec![2u32, 3, 4, 6, 10] } else { vec![3u32, 6] } {
									v.push(Case { ct, limit_msat, amount_msat, fee_bump, both_ways, multiplier: true, max_payments, bump_to: 2500 });
									if thorough {
										v.push(Case { ct, limit_msat, amount_msat, fee_bump, both_ways, multiplier: false, max_payments, bump_to: 2500 });
									}
								}
							}
						}
					}
				}
			}
		}
	}
	// HTLCs that have an output (and are not counted as dust, even with the library's safety buffer) at the opening
	// feerate and have none after a large feerate increase: few of them pending, then either funder raises the feerate
	for multiplier in [true, false] {
		for fee_bump in [1u8, 2] {
			for max_payments in if thorough { vec![1u32, 2, 3, 4, 6, 10] } else { vec![2u32, 3, 6] } {
				for both_ways in [false, true] {
					if !thorough && both_ways && !multiplier {
						continue;
					}
					v.push(Case { ct: Ct::Static, limit_msat: 3_000_000, amount_msat: 3_000_000, fee_bump, both_ways, multiplier, max_payments, bump_to: 5000 });
				}
			}
		}
	}
	v
}

pub struct DustStats {
	pub cases: u64,
	pub cases_refused_for_dust: u64,
	pub max_dust_seen_msat: u64,
	pub outcomes: std::collections::BTreeMap<String, u64>,
}

pub fn run_dust(thorough: bool, threads: usize) -> (DustStats, Vec<Violation>) {
	let cs = cases(thorough);
	let res = mc_common::par::map(&cs, threads, |_, c| run_case(c));
	let mut st = DustStats { cases: 0, cases_refused_for_dust: 0, max_dust_seen_msat: 0, outcomes: Default::default() };
	let mut violations = Vec::new();
	for (c, r) in cs.iter().zip(res.into_iter()) {
		st.cases += 1;
		match r {
			Ok(Ok(o)) => {
				if o.refused_for_dust {
					st.cases_refused_for_dust += 1;
				}
				st.max_dust_seen_msat = st.max_dust_seen_msat.max(o.max_dust_seen_msat);
				*st.outcomes.entry(format!("{:?}:{}:{}", c.ct, c.amount_msat, o.label.split(' ').nth(1).unwrap_or(""))).or_insert(0) += 1;
			},
			Ok(Err((oracle, detail))) => {
				if oracle == "harness" {
					mc_common::cli::die(&format!("harness problem in dust case {:?}: {}", c, detail));
				}
				violations.push(Violation { property: "C02".into(), oracle: oracle.clone(), identity: format!("{}|{:?}", oracle, c), detail: format!("{:?}: {}", c, detail), replay: json!({"dust_case": format!("{:?}", c)}) });
			},
			Err(p) => violations.push(Violation { property: "C02".into(), oracle: "no-panic".into(), identity: format!("no-panic|{:?}", c), detail: format!("{:?}: panic {}", c, p), replay: json!({"dust_case": format!("{:?}", c)}) }),
		}
	}
	(st, violations)
}

pub fn replay_case(case: &str) -> i32 {
	for th in [false, true] {
		if let Some(c) = cases(th).into_iter().find(|c| format!("{:?}", c) == case) {
			return match mc_common::par::guarded(|| run_case(&c)) {
				Ok(Ok(o)) => {
					println!("dust case {:?}: held ({:?})", c, o);
					0
				},
				Ok(Err((oracle, detail))) => {
					println!("dust case {:?}: {} {}", c, oracle, detail);
					1
				},
				Err(p) => {
					println!("dust case {:?}: panic {}", c, p);
					1
				},
			};
		}
	}
	mc_common::cli::die("unknown dust case in replay file")
}
