//! C11 – on-chain conclusions depend only on the chain, not on how it was delivered.
//!
//! A reference run (whole blocks through `Listen`) drives a real two-node world through a script
//! (open, HTLCs both ways, force-close, on-chain resolution, optionally a reorg of depth d with the
//! removed transactions re-mined at once / one block later / three blocks later) and records the
//! chain events. Every other notification style then sees *the same chain events* on a fresh world,
//! and the canonical observation tuple is compared at every synchronisation point.
use crate::checks::c01::{user_config, Ct};
use crate::world::{ClaimPolicy, Obs, SyncStyle, World};
use bitcoin::Transaction;
use lightning::chain::Confirm;
use lightning::events::Event;
use lightning::ln::types::ChannelId;
use mc_common::cli::{Args, Tier};
use mc_common::evidence::{Evidence, Level};
use mc_common::findings::Violation;
use mc_common::{json, par};
use std::collections::BTreeMap;

#[derive(Clone, Debug)]
pub enum ChainEv {
	Mine(Vec<Transaction>),
	MineSalted(Vec<Transaction>, u32),
	Disconnect(u32),
	/// user operation: the recipient of the first payment claims it now
	UserClaim,
}

#[derive(Clone, Debug)]
pub struct Script {
	pub name: String,
	pub ct: Ct,
	/// who force-closes (None = nobody: only the funding/confirmation part is scripted)
	pub closer: Option<usize>,
	pub late_preimage: bool,
	/// the recipient of the first payment claims it once the commitment has this many confirmations
	pub claim_at_confs: Option<u32>,
	/// reorg: (confirmations of the commitment when the reorg hits, depth, re-mine delay in blocks)
	pub reorg: Option<(u32, u32, u32)>,
	/// while the re-mining delay runs, the closing transaction itself is re-mined at once (only what
	/// spends its outputs stays unconfirmed)
	pub remine_close_first: bool,
	/// the peers are disconnected when the channel is force-closed: the other side learns of the close
	/// from the chain only (and never tries to publish its own commitment)
	pub offline_peer: bool,
	pub total_blocks: u32,
}

struct Run {
	w: World,
	cid: ChannelId,
	events: Vec<ChainEv>,
	tuples: Vec<String>,
	/// the same tuples without the PaymentSent events (knowledge of a preimage cannot be retracted: a
	/// client that saw a fork containing the claim legitimately knows more than one that did not)
	tuples_no_sent: Vec<String>,
	/// per comparison point: (tip hash, outpoints the nodes' monitors are still trying to claim)
	claims: Vec<(bitcoin::BlockHash, String)>,
	irreversible: Vec<String>,
	spendable_heights: Vec<(bitcoin::Txid, u32)>,
}

fn tuple(w: &World, cumulative_events: &BTreeMap<String, u32>) -> String {
	let mut s = String::new();
	for n in 0..w.nodes.len() {
		let node = &w.nodes[n];
		let bb = node.cm.current_best_block();
		s.push_str(&format!("n{} best={}@{};", n, bb.height, &bb.block_hash.to_string()[..8]));
		let mut chans: Vec<String> = node
			.cm
			.list_channels()
			.iter()
			.map(|c| format!("{}:ready={} usable={} conf={:?}", &c.channel_id.to_string()[..6], c.is_channel_ready, c.is_usable, c.confirmations))
			.collect();
		chans.sort();
		s.push_str(&format!("chans={:?};", chans));
		let mut bals: Vec<String> = node.mon.get_claimable_balances(&[]).iter().map(|b| format!("{:?}", b)).collect();
		bals.sort();
		s.push_str(&format!("bal={:?};", bals));
		let mut r1: Vec<String> = node.cm.get_relevant_txids().iter().map(|(t, h, b)| format!("{}@{}:{:?}", &t.to_string()[..8], h, b.map(|x| x.to_string()[..6].to_string()))).collect();
		r1.sort();
		let mut r2: Vec<String> = node.mon.get_relevant_txids().iter().map(|(t, h, b)| format!("{}@{}:{:?}", &t.to_string()[..8], h, b.map(|x| x.to_string()[..6].to_string()))).collect();
		r2.sort();
		r2.dedup();
		s.push_str(&format!("rel_cm={:?};rel_mon={:?};", r1, r2));
		for cid in node.mon.list_monitors() {
			if let Ok(m) = node.mon.get_monitor(cid) {
				let mb = m.current_best_block();
				s.push_str(&format!("mon_best={}@{};", mb.height, &mb.block_hash.to_string()[..8]));
			}
		}
	}
	s.push_str(&format!("events={:?}", cumulative_events));
	s
}

fn event_key(n: usize, e: &Event) -> Option<String> {
	Some(match e {
		Event::ChannelClosed { reason, .. } => format!("n{} ChannelClosed {:?}", n, reason),
		Event::ChannelReady { .. } => format!("n{} ChannelReady", n),
		Event::SpendableOutputs { outputs, .. } => {
			let mut v: Vec<String> = outputs
				.iter()
				.map(|d| match d {
					lightning::sign::SpendableOutputDescriptor::StaticOutput { outpoint, .. } => format!("static {}:{}", &outpoint.txid.to_string()[..8], outpoint.index),
					lightning::sign::SpendableOutputDescriptor::DelayedPaymentOutput(x) => format!("delayed {}:{}", &x.outpoint.txid.to_string()[..8], x.outpoint.index),
					lightning::sign::SpendableOutputDescriptor::StaticPaymentOutput(x) => format!("payment {}:{}", &x.outpoint.txid.to_string()[..8], x.outpoint.index),
				})
				.collect();
			v.sort();
			format!("n{} SpendableOutputs {:?}", n, v)
		},
		Event::PaymentFailed { payment_hash, .. } => format!("n{} PaymentFailed {:?}", n, payment_hash.map(|h| h.0[0])),
		Event::PaymentSent { payment_hash, .. } => format!("n{} PaymentSent {}", n, payment_hash.0[0]),
		Event::PaymentClaimed { payment_hash, .. } => format!("n{} PaymentClaimed {}", n, payment_hash.0[0]),
		Event::HTLCHandlingFailed { .. } => format!("n{} HTLCHandlingFailed", n),
		_ => return None,
	})
}

/// Executes the script. `replay` = None: reference (live mining); Some(events): the recorded chain events.
fn execute(sc: &Script, style: SyncStyle, replay: Option<&[ChainEv]>, twin: bool) -> Result<Run, String> {
	let mut w = World::new(vec![user_config(sc.ct), user_config(sc.ct)], 253);
	w.style = style;
	let cid = w.open_channel(0, 1, 1_000_000, 400_000_000);
	let mut run = Run { w, cid, events: Vec::new(), tuples: Vec::new(), tuples_no_sent: Vec::new(), claims: Vec::new(), irreversible: Vec::new(), spendable_heights: Vec::new() };
	let funding = run.w.chan(0, &cid).and_then(|c| c.funding_txo).map(|o| bitcoin::OutPoint { txid: o.txid, vout: o.index as u32 });
	let w = &mut run.w;
	w.send_payment(0, &[(1, cid)], 50_000_000, ClaimPolicy::Hold);
	w.send_payment(1, &[(0, cid)], 30_000_000, ClaimPolicy::Hold);
	if !w.run_to_quiescence(400) {
		return Err("payments did not quiesce".into());
	}
	if let Some(closer) = sc.closer {
		let peer = w.nodes[1 - closer].id;
		if sc.offline_peer {
			w.disconnect(0, 1);
		}
		w.nodes[closer].cm.force_close_broadcasting_latest_txn(&cid, &peer, "c11".to_string()).map_err(|e| format!("{:?}", e))?;
		w.pump();
		w.run_to_quiescence(400);
		if sc.late_preimage {
			let pre = w.payments[0].preimage;
			w.nodes[1].cm.claim_funds(pre);
			w.pump();
			w.run_to_quiescence(400);
		}
	}
	let mut cumulative: BTreeMap<String, u32> = BTreeMap::new();
	let batch = style.batches();
	let mut since_sync = 0u32;
	let mut commitment_confs: u32 = 0;
	let mut reorg_done = sc.reorg.is_none();
	let mut pending_delay: u32 = 0;
	let mut claimed_late = false;
	// ConfirmUnconfirmOnlySkipping follows the chain block by block, but after a reorganisation (reported
	// through transaction_unconfirmed) it jumps straight to the third block of the new chain
	let mut skip_after_reorg = 0u32;
	let mut i = 0usize;
	loop {
		let w = &mut run.w;
		// ---- next chain event ----
		let ev: ChainEv = match replay {
			Some(evs) => {
				if i >= evs.len() {
					break;
				}
				evs[i].clone()
			},
			None => {
				if i as u32 >= sc.total_blocks {
					break;
				}
				if sc.claim_at_confs.map(|k| commitment_confs >= k).unwrap_or(false) && !claimed_late {
					ChainEv::UserClaim
				} else if !reorg_done && sc.reorg.map(|r| commitment_confs == r.0).unwrap_or(false) {
					reorg_done = true;
					pending_delay = sc.reorg.unwrap().2;
					ChainEv::Disconnect(sc.reorg.unwrap().1)
				} else if pending_delay > 0 {
					pending_delay -= 1;
					let txs = if sc.remine_close_first {
						w.chain.minable(&|_| 0).into_iter().filter(|t| funding.map(|f| t.input.iter().any(|i| i.previous_output == f)).unwrap_or(false)).collect()
					} else {
						Vec::new()
					};
					ChainEv::MineSalted(txs, 7)
				} else {
					ChainEv::Mine(w.chain.minable(&|_| 0))
				}
			},
		};
		i += 1;
		let mut force_sync = false;
		match &ev {
			ChainEv::Mine(txs) => {
				w.chain.mine_ordered(txs.clone());
			},
			ChainEv::MineSalted(txs, salt) => {
				let h = w.chain.mine_ordered(txs.clone());
				let prev = w.chain.blocks[(h - 1) as usize].header.block_hash();
				let mut hd = w.chain.blocks[h as usize].header;
				hd.prev_blockhash = prev;
				hd.nonce += *salt;
				w.chain.blocks[h as usize].header = hd;
			},
			ChainEv::UserClaim => {
				force_sync = true;
			},
			ChainEv::Disconnect(d) => {
				if twin {
					// the reorg-free twin never sees the doomed blocks: handled by the caller (events are filtered)
				}
				for _ in 0..*d {
					let b = w.chain.disconnect_tip();
					w.stale_blocks.insert(b.header.block_hash(), b.txdata.clone());
				}
				force_sync = true;
			},
		}
		run.events.push(ev.clone());
		if let Some(fo) = funding {
			commitment_confs = match w.chain.spent_by.get(&fo) {
				Some((_, h)) => w.chain.height() + 1 - *h,
				None => 0,
			};
		}
		since_sync += 1;
		let at_end = replay.map(|e| i >= e.len()).unwrap_or(i as u32 >= sc.total_blocks);
		// a disconnection is never batched together with what follows it for the skipping styles: they
		// are told the new best block at the next connection
		if style == SyncStyle::ConfirmUnconfirmOnlySkipping {
			if matches!(ev, ChainEv::Disconnect(_)) {
				skip_after_reorg = 3;
			} else if skip_after_reorg > 1 && !at_end && !force_sync {
				skip_after_reorg -= 1;
				run.tuples.push(String::new());
				run.tuples_no_sent.push(String::new());
				run.claims.push((w.chain.blocks.last().unwrap().header.block_hash(), String::new()));
				continue;
			} else {
				skip_after_reorg = 0;
			}
		}
		if batch && !at_end && since_sync < 3 && !force_sync {
			run.tuples.push(String::new());
			run.tuples_no_sent.push(String::new());
			run.claims.push((w.chain.blocks.last().unwrap().header.block_hash(), String::new()));
			continue;
		}
		if matches!(ev, ChainEv::Disconnect(_)) && !matches!(style, SyncStyle::ListenFull | SyncStyle::ListenFiltered | SyncStyle::ListenReplayed) && replay.is_some() {
			// Confirm-style clients learn about a reorg when they see the new chain; a bare disconnection is
			// only delivered if the style has a notion of it. Keep the comparison points aligned anyway.
		}
		since_sync = 0;
		w.sync_all();
		if matches!(ev, ChainEv::UserClaim) {
			{
				claimed_late = true;
				let pre = w.payments[0].preimage;
				w.nodes[1].cm.claim_funds(pre);
				w.pump();
				w.run_to_quiescence(400);
				crate::runner::witness("c11-preimage-provided-after-close-confirmed");
			}
		}
		// what each monitor is still trying to claim: ask it to rebroadcast and look at the inputs
		let mut pending_claims: Vec<String> = Vec::new();
		for n in 0..w.nodes.len() {
			w.nodes[n].mon.rebroadcast_pending_claims();
			let mut ops: Vec<String> = w.nodes[n]
				.bc
				.out
				.lock()
				.unwrap()
				.iter()
				.flat_map(|b| b.txs.iter().flat_map(|t| t.input.iter().map(|i| i.previous_output)).collect::<Vec<_>>())
				// a claim of an output that the chain already shows as spent cannot change any outcome (the
				// library keeps re-offering pre-signed HTLC transactions whose output the peer took long ago)
				.filter(|op| !w.chain.spent_by.contains_key(op))
				.map(|op| format!("{}:{}", &op.txid.to_string()[..8], op.vout))
				.collect();
			ops.sort();
			ops.dedup();
			if !ops.is_empty() {
				crate::runner::witness("c11-pending-claim-observed");
			}
			pending_claims.push(format!("n{}:{:?}", n, ops));
		}
		w.pump();
		for _ in 0..4 {
			let mut any = false;
			for n in 0..w.nodes.len() {
				if w.nodes[n].has_events() {
					let before = w.obs.len();
					w.handle_events(n);
					for o in w.obs[before..].iter() {
						if let Obs::Event { node, ev } = o {
							if let Some(k) = event_key(*node, ev) {
								*cumulative.entry(k.clone()).or_insert(0) += 1;
								if let Event::SpendableOutputs { outputs, .. } = ev {
									for d in outputs {
										let txid = match d {
											lightning::sign::SpendableOutputDescriptor::StaticOutput { outpoint, .. } => outpoint.txid,
											lightning::sign::SpendableOutputDescriptor::DelayedPaymentOutput(x) => x.outpoint.txid,
											lightning::sign::SpendableOutputDescriptor::StaticPaymentOutput(x) => x.outpoint.txid,
										};
										run.spendable_heights.push((txid, w.chain.height()));
									}
								}
							}
						}
					}
					any = true;
				}
			}
			w.run_to_quiescence(50);
			if !any {
				break;
			}
		}
		let claims = format!("claims={:?};", pending_claims);
		run.claims.push((w.chain.blocks.last().unwrap().header.block_hash(), claims.clone()));
		run.tuples.push(format!("{}{}", claims, tuple(w, &cumulative)));
		let no_sent: BTreeMap<String, u32> = cumulative.iter().filter(|(k, _)| !k.contains("PaymentSent")).map(|(k, v)| (k.clone(), *v)).collect();
		run.tuples_no_sent.push(format!("{}{}", claims, tuple(w, &no_sent)));
	}
	run.irreversible = cumulative.keys().filter(|k| k.contains("SpendableOutputs") || k.contains("PaymentFailed") || k.contains("PaymentSent")).cloned().collect();
	Ok(run)
}

pub fn scripts(tier: Tier) -> Vec<Script> {
	let th = tier.is_thorough();
	let mut v = Vec::new();
	let cts: Vec<Ct> = if th { vec![Ct::Static, Ct::Anchors] } else { vec![Ct::Static] };
	for ct in cts {
		for closer in [0usize, 1] {
			for late in [false, true] {
				v.push(Script { name: format!("{:?}-close{}-late{}", ct, closer, late as u8), ct, closer: Some(closer), late_preimage: late, claim_at_confs: None, reorg: None, remine_close_first: false, offline_peer: false, total_blocks: 300 });
				let confs: Vec<u32> = if th { vec![1, 2, 3, 5] } else { vec![1, 3, 5] };
				for c in confs {
					for d in 1..=c.min(5) {
						if !th && d != 1 && d != c {
							continue;
						}
						// delay 8: the removed transactions stay unconfirmed for longer than the anti-reorg depth
						// (only where the reorg removes the close itself, and a claim with it)
						let delays: Vec<u32> = if d == c && (th || late) { vec![0, 1, 3, 8] } else { vec![0, 1, 3] };
						for delay in delays {
							if !th && late && delay == 3 {
								continue;
							}
							v.push(Script {
								name: format!("{:?}-close{}-late{}-reorg-c{}-d{}-delay{}", ct, closer, late as u8, c, d, delay),
								ct,
								closer: Some(closer),
								late_preimage: late,
								claim_at_confs: None,
								remine_close_first: false,
								offline_peer: false,
								reorg: Some((c, d, delay)),
								total_blocks: 320,
							});
						}
					}
				}
			}
			// the close and a confirmed claim on it are reorganised out together; the close is re-mined at once,
			// the claim stays unconfirmed for longer than the anti-reorg depth
			for (c, delay) in [(2u32, 8u32), (3, 8), (2, 12)] {
				if !th && (c, delay) == (2, 12) {
					continue;
				}
				for offline_peer in [false, true] {
					v.push(Script {
						name: format!("{:?}-close{}-late1-reorg-c{}-d{}-close-first-delay{}{}", ct, closer, c, c, delay, if offline_peer { "-offline" } else { "" }),
						ct,
						closer: Some(closer),
						late_preimage: true,
						claim_at_confs: None,
						remine_close_first: true,
						offline_peer,
						reorg: Some((c, c, delay)),
						total_blocks: 330,
					});
				}
			}
			// the preimage reaches the monitor only after the closing transaction confirmed (k confirmations,
			// still short of the anti-reorg depth); then a reorg that leaves the closing transaction in place
			for k in 1..=4u32 {
				v.push(Script {
					name: format!("{:?}-close{}-claim-at-{}conf", ct, closer, k),
					ct,
					closer: Some(closer),
					late_preimage: false,
					claim_at_confs: Some(k),
					reorg: None,
					remine_close_first: false,
								offline_peer: false,
					total_blocks: 300,
				});
				for c in (k + 1)..=5u32 {
					for d in 1..=(c - k) {
						if !th && !(d == 1 || d == c - k) {
							continue;
						}
						for delay in [0u32, 2] {
							if !th && k > 2 && delay == 0 {
								continue;
							}
							v.push(Script {
								name: format!("{:?}-close{}-claim-at-{}conf-reorg-c{}-d{}-delay{}", ct, closer, k, c, d, delay),
								ct,
								closer: Some(closer),
								late_preimage: false,
								claim_at_confs: Some(k),
								remine_close_first: false,
								offline_peer: false,
								reorg: Some((c, d, delay)),
								total_blocks: 320,
							});
						}
					}
				}
			}
		}
	}
	v
}

pub struct ScriptResult {
	pub comparisons: u64,
	pub styles: u64,
	pub reorged: bool,
	pub violations: Vec<(String, String, String)>,
}

pub fn run_script(sc: &Script) -> Result<ScriptResult, String> {
	let reference = execute(sc, SyncStyle::ListenFull, None, false)?;
	let mut res = ScriptResult { comparisons: 0, styles: 0, reorged: reference.events.iter().any(|e| matches!(e, ChainEv::Disconnect(_))), violations: Vec::new() };
	// irreversibility: SpendableOutputs only once the creating transaction is buried by ANTI_REORG_DELAY
	for (txid, h) in reference.spendable_heights.iter() {
		if let Some(ch) = reference.w.chain.confirmed.get(txid) {
			if *h + 1 < *ch + 6 {
				res.violations.push((
					"irreversible-conclusion-too-early".into(),
					format!("{}|SpendableOutputs", sc.name),
					format!("SpendableOutputs for an output of {} (confirmed at height {}) was announced at height {} (< {} confirmations)", txid, ch, h, 6),
				));
			}
		}
	}
	let first_disc = reference.events.iter().position(|e| matches!(e, ChainEv::Disconnect(_)));
	for style in SyncStyle::all() {
		if style == SyncStyle::ListenFull {
			continue;
		}
		if let Ok(only) = std::env::var("MC_C11_ONLY_STYLE") {
			if format!("{:?}", style) != only {
				continue;
			}
		}
		let r = execute(sc, style, Some(&reference.events), false)?;
		res.styles += 1;
		if std::env::var("MC_C11_DUMP").is_ok() {
			for i in 0..r.claims.len().min(24) {
				eprintln!("DUMP {:?} ev{} {:?} ref={} this={}", style, i, reference.events.get(i).map(|e| format!("{:?}", e).chars().take(24).collect::<String>()), reference.claims[i].1, r.claims[i].1);
			}
		}
		for (i, t) in r.tuples.iter().enumerate() {
			if t.is_empty() {
				continue;
			}
			// a Confirm-style client is told about a disconnection only together with the new chain, so the
			// point right after a bare disconnection is not comparable for those styles
			let after_disconnect = matches!(reference.events[i], ChainEv::Disconnect(_));
			let listen = matches!(style, SyncStyle::ListenFiltered | SyncStyle::ListenReplayed);
			if after_disconnect && !listen {
				continue;
			}
			res.comparisons += 1;
			// between the first disconnection and the end of the script the clients may differ in what they
			// learned from the doomed blocks (a preimage seen there stays known); at the end all must agree
			let in_reorg_window = first_disc.map(|f| i >= f).unwrap_or(false) && i + 1 < r.tuples.len();
			let (ta, tb) = if in_reorg_window { (&reference.tuples_no_sent[i], &r.tuples_no_sent[i]) } else { (&reference.tuples[i], t) };
			if ta != tb {
				let (a, b) = (ta, tb);
				let pos = a.bytes().zip(b.bytes()).position(|(x, y)| x != y).unwrap_or(a.len().min(b.len()));
				let lo = pos.saturating_sub(120);
				res.violations.push((
					"style-dependent-conclusion".into(),
					format!("{}|{:?}", sc.name, style),
					format!(
						"after chain event {} the conclusions differ between ListenFull and {:?}: ...{} <> ...{}",
						i,
						style,
						&a[lo..(pos + 160).min(a.len())],
						&b[lo..(pos + 160).min(b.len())]
					),
				));
				break;
			}
		}
	}
	// retraction: a world that never saw the doomed blocks ends in the same place
	if res.reorged {
		let mut filtered: Vec<ChainEv> = Vec::new();
		for e in reference.events.iter() {
			match e {
				ChainEv::Disconnect(d) => {
					// drop the d most recent blocks, keeping user operations
					let mut left = *d;
					let mut keep: Vec<ChainEv> = Vec::new();
					while left > 0 {
						match filtered.pop() {
							Some(ChainEv::UserClaim) => keep.push(ChainEv::UserClaim),
							Some(_) => left -= 1,
							None => break,
						}
					}
					filtered.extend(keep);
				},
				other => filtered.push(other.clone()),
			}
		}
		let twin = execute(sc, SyncStyle::ListenFull, Some(&filtered), true)?;
		res.comparisons += 1;
		let strip = |t: &str| -> String { t.split("events=").next().unwrap_or("").to_string() };
		let (a, b) = (reference.tuples.last().cloned().unwrap_or_default(), twin.tuples.last().cloned().unwrap_or_default());
		if strip(&a) != strip(&b) {
			let (sa, sb) = (strip(&a), strip(&b));
			let pos = sa.bytes().zip(sb.bytes()).position(|(x, y)| x != y).unwrap_or(sa.len().min(sb.len()));
			let lo = pos.saturating_sub(120);
			res.violations.push((
				"reorg-not-retracted".into(),
				format!("{}|twin", sc.name),
				format!("after the reorg the state differs from a world that only saw the final chain: ...{} <> ...{}", &sa[lo..(pos + 160).min(sa.len())], &sb[lo..(pos + 160).min(sb.len())]),
			));
		}
		// at every tip both worlds have in common after the reorg, the monitors pursue the same claims
		let last_disc = reference.events.iter().rposition(|e| matches!(e, ChainEv::Disconnect(_))).unwrap_or(0);
		for (idx, (tip, claims)) in reference.claims.iter().enumerate() {
			if idx < last_disc || claims.is_empty() {
				continue;
			}
			if let Some((_, tc)) = twin.claims.iter().rev().find(|(t, c)| t == tip && !c.is_empty()) {
				res.comparisons += 1;
				if tc != claims {
					res.violations.push((
						"reorg-not-retracted".into(),
						format!("{}|twin-claims", sc.name),
						format!("at tip {} (chain event {}) the claims still pursued differ from a world that only saw the final chain: with reorg {} without {}", tip, idx, claims, tc),
					));
					break;
				}
			}
		}
		if reference.irreversible != twin.irreversible {
			res.violations.push((
				"reorg-not-retracted".into(),
				format!("{}|twin-events", sc.name),
				format!("irreversible conclusions differ: with reorg {:?}, without {:?}", reference.irreversible, twin.irreversible),
			));
		}
	}
	Ok(res)
}

pub fn run(args: &Args) -> i32 {
	let tier = args.tier;
	let mut ev = Evidence::new("C11", tier, args.seed, Level::ModelChecking);
	let scs: Vec<Script> = scripts(tier).into_iter().filter(|s| args.opt("only").map(|o| s.name.contains(o)).unwrap_or(true)).collect();
	let start = std::time::Instant::now();
	let cap = std::time::Duration::from_secs(if args.wall_cap_s > 0 { args.wall_cap_s } else if tier.is_thorough() { 2400 } else { 55 });
	let results = par::map(&scs, args.threads, |_, s| {
		if start.elapsed() > cap {
			return Err("capped".to_string());
		}
		run_script(s)
	});
	let mut violations = Vec::new();
	let (mut runs, mut comparisons, mut reorgs, mut capped) = (0u64, 0u64, 0u64, 0u64);
	for (sc, r) in scs.iter().zip(results.into_iter()) {
		match r {
			Ok(Ok(res)) => {
				runs += res.styles + 1 + res.reorged as u64;
				comparisons += res.comparisons;
				reorgs += res.reorged as u64;
				for (oracle, id, detail) in res.violations {
					violations.push(Violation {
						property: "C11".into(),
						oracle: oracle.clone(),
						identity: format!("{}|{}", oracle, id),
						detail: format!("[{}] {}", sc.name, detail),
						replay: json!({"script": sc.name}),
					});
				}
				ev.sample(json!(sc.name), 6);
			},
			Ok(Err(e)) if e == "capped" => capped += 1,
			Ok(Err(e)) => mc_common::cli::die(&format!("harness problem in script {}: {}", sc.name, e)),
			Err(p) => violations.push(Violation {
				property: "C11".into(),
				oracle: "no-panic".into(),
				identity: format!("no-panic|{}", sc.name),
				detail: format!("[{}] panic: {}", sc.name, p),
				replay: json!({"script": sc.name}),
			}),
		}
	}
	// funding reorganised away before the channel is ready
	let mut funding_cases = 0u64;
	if args.opt("only").is_none() || args.opt("only") == Some("funding-reorg") {
		let fcs = funding_reorg_cases(tier);
		let fres = par::map(&fcs, args.threads, |_, c| funding_reorg_case(c));
		ev.sample(json!(format!("{:?}", fcs[0])), 2);
		for (c, r) in fcs.iter().zip(fres.into_iter()) {
			funding_cases += 1;
			match r {
				Ok(Ok((problems, cmp))) => {
					runs += 2;
					comparisons += cmp;
					for (oracle, detail) in problems.into_iter().take(2) {
						violations.push(Violation {
							property: "C11".into(),
							oracle: oracle.clone(),
							identity: format!("{}|{:?}", oracle, c),
							detail: format!("[funding-reorg {:?}] {}", c, detail),
							replay: json!({"funding_reorg": format!("{:?}", c)}),
						});
					}
				},
				Ok(Err(e)) => mc_common::cli::die(&format!("harness problem in funding-reorg case {:?}: {}", c, e)),
				Err(p) => violations.push(Violation {
					property: "C11".into(),
					oracle: "no-panic".into(),
					identity: format!("no-panic|{:?}", c),
					detail: format!("[funding-reorg {:?}] panic: {}", c, p),
					replay: json!({"funding_reorg": format!("{:?}", c)}),
				}),
			}
		}
	}
	ev.set("funding_reorg_cases", funding_cases);
	if comparisons == 0 || (reorgs == 0 && args.opt("only").is_none()) {
		mc_common::cli::die("vacuity guard: no comparisons / no reorg scripts ran");
	}
	ev.set("states", comparisons);
	ev.set("transitions", comparisons);
	ev.set("traces_validated_against_impl", runs);
	ev.set("scripts", scs.len() as u64);
	ev.set("scripts_with_reorg", reorgs);
	ev.set("styles", SyncStyle::all().len() as u64);
	ev.set("tuple_comparisons", comparisons);
	ev.set("scripts_cut_by_cap", capped);
	ev.set("capped", capped > 0);
	ev.assume("the chain (blocks and their transactions) is generated once by the reference style and replayed identically for every other style; user operations happen at the same points");
	ev.assume("comparison tuple: best block of manager and monitors, channel readiness/confirmations, sorted claimable balances, get_relevant_txids of manager and chain monitor, cumulative multiset of ChannelClosed / ChannelReady / SpendableOutputs / PaymentSent / PaymentFailed / PaymentClaimed / HTLCHandlingFailed events; skipping styles are compared every third block");
	mc_common::findings::conclude("C11", &violations, &mut ev)
}

// -------------------------------------------------------------------------------------------------
// Funding confirmation retracted by a shallow reorg *before* the channel is ready.
//
// The funding transaction confirms and collects `confs` < 6 confirmations; a reorg of that depth removes it;
// on the new chain it confirms again `delay` blocks later (or not within the horizon). Every delivery style sees
// both forks; a twin (block-by-block Listen) sees only the final chain. Once both have been told about the same
// best chain their conclusions - readiness, confirmations, short channel id, transactions to watch, ChannelReady
// events - must be equal, and nobody may send channel_ready while the funding has fewer than six confirmations
// on the chain it was told about.

#[derive(Clone, Debug)]
pub struct FundingReorgCase {
	pub style: SyncStyle,
	pub confs: u32,
	pub delay: u32,
	pub reconfirms: bool,
}

fn mine_salted(w: &mut World, txs: Vec<Transaction>, salt: u32) {
	let h = w.chain.mine_ordered(txs);
	let prev = w.chain.blocks[(h - 1) as usize].header.block_hash();
	let mut hd = w.chain.blocks[h as usize].header;
	hd.prev_blockhash = prev;
	hd.nonce += salt;
	w.chain.blocks[h as usize].header = hd;
}

fn funding_view(w: &World) -> String {
	let mut s = String::new();
	for n in 0..w.nodes.len() {
		let node = &w.nodes[n];
		let bb = node.cm.current_best_block();
		let mut chans: Vec<String> = node
			.cm
			.list_channels()
			.iter()
			.map(|c| format!("ready={} usable={} conf={:?} scid={:?}", c.is_channel_ready, c.is_usable, c.confirmations, c.short_channel_id))
			.collect();
		chans.sort();
		let mut r1: Vec<String> = node.cm.get_relevant_txids().iter().map(|(t, h, b)| format!("{}@{}:{:?}", &t.to_string()[..8], h, b.map(|x| x.to_string()[..6].to_string()))).collect();
		r1.sort();
		s.push_str(&format!("n{} best={}@{} chans={:?} rel_cm={:?};", n, bb.height, &bb.block_hash.to_string()[..8], chans, r1));
	}
	s
}

/// Runs the opening up to the funding broadcast; returns the funding transaction.
fn open_until_broadcast(w: &mut World) -> Result<Transaction, String> {
	w.connect(0, 1);
	let bid = w.nodes[1].id;
	w.nodes[0].cm.create_channel(bid, 1_000_000, 400_000_000, 42, None, None).map_err(|e| format!("{:?}", e))?;
	w.pump();
	if !w.run_to_quiescence(200) {
		return Err("open did not quiesce".into());
	}
	w.funding_txs.last().cloned().ok_or_else(|| "no funding tx".to_string())
}

fn step_sync(w: &mut World, ftxid: bitcoin::Txid, ready_events: &mut u32, problems: &mut Vec<(String, String)>, what: &str) {
	let before = w.obs.len();
	w.sync_all();
	w.pump();
	w.run_to_quiescence(300);
	let confs = match w.chain.confirmed.get(&ftxid) {
		Some(h) => w.chain.height() + 1 - *h,
		None => 0,
	};
	for o in w.obs[before..].iter() {
		match o {
			Obs::Sent { from, wire: crate::world::Wire::ChannelReady(_), .. } if confs < 6 => {
				problems.push((
					"channel-ready-before-funding-depth".to_string(),
					format!("{}: node {} sent channel_ready while the funding transaction has {} confirmations on the best chain it was told about", what, from, confs),
				));
			},
			Obs::Event { ev: Event::ChannelReady { .. }, .. } => *ready_events += 1,
			_ => {},
		}
	}
}

pub fn funding_reorg_case(c: &FundingReorgCase) -> Result<(Vec<(String, String)>, u64), String> {
	let mut problems = Vec::new();
	let mut comparisons = 0u64;
	// ---- the world that sees both forks
	let mut w = World::new(vec![user_config(Ct::Static), user_config(Ct::Static)], 253);
	w.style = c.style;
	let ftx = open_until_broadcast(&mut w)?;
	let ftxid = ftx.compute_txid();
	let mut ready_a = 0u32;
	w.chain.mine(vec![ftx.clone()], true).map_err(|e| format!("{:?}", e))?;
	w.mine_empty(c.confs - 1);
	step_sync(&mut w, ftxid, &mut ready_a, &mut problems, "first fork");
	for _ in 0..c.confs {
		let b = w.chain.disconnect_tip();
		w.stale_blocks.insert(b.header.block_hash(), b.txdata.clone());
	}
	// ---- the twin never sees the first fork
	let mut t = World::new(vec![user_config(Ct::Static), user_config(Ct::Static)], 253);
	let ftx_t = open_until_broadcast(&mut t)?;
	if ftx_t.compute_txid() != ftxid {
		return Err("twin built a different funding transaction".into());
	}
	let mut ready_t = 0u32;
	let horizon = c.delay + 9;
	for i in 0..horizon {
		let txs = if c.reconfirms && i == c.delay { vec![ftx.clone()] } else { Vec::new() };
		mine_salted(&mut w, txs.clone(), 7);
		mine_salted(&mut t, txs, 7);
		if w.chain.tip_hash() != t.chain.tip_hash() {
			return Err("twin chain diverged".into());
		}
		let what = format!("second fork, block {}", i + 1);
		// batching styles are told every third block and at the end
		let sync_now = !c.style.batches() && c.style != SyncStyle::ConfirmUnconfirmOnlySkipping || i % 3 == 2 || i + 1 == horizon;
		step_sync(&mut t, ftxid, &mut ready_t, &mut problems, &format!("twin, {}", what));
		if sync_now {
			step_sync(&mut w, ftxid, &mut ready_a, &mut problems, &what);
			let (a, b) = (funding_view(&w), funding_view(&t));
			comparisons += 1;
			if a != b || ready_a != ready_t {
				problems.push((
					"reorg-not-retracted".to_string(),
					format!("{}: a client that saw the funding confirm in a fork of depth {} which was then reorganised away concludes\n  {} (ChannelReady events: {})\nwhile one that only saw the final chain concludes\n  {} (ChannelReady events: {})", what, c.confs, a, ready_a, b, ready_t),
				));
				break;
			}
		}
	}
	if c.reconfirms {
		crate::runner::witness("c11-funding-reconfirmed-after-reorg");
	} else {
		crate::runner::witness("c11-funding-gone-after-reorg");
	}
	Ok((problems, comparisons))
}

pub fn funding_reorg_cases(tier: Tier) -> Vec<FundingReorgCase> {
	let mut v = Vec::new();
	let th = tier.is_thorough();
	for style in SyncStyle::all() {
		for confs in if th { vec![1u32, 2, 3, 4, 5] } else { vec![1u32, 3, 5] } {
			for delay in if th { vec![0u32, 1, 2, 3] } else { vec![0u32, 2] } {
				v.push(FundingReorgCase { style, confs, delay, reconfirms: true });
			}
			v.push(FundingReorgCase { style, confs, delay: 0, reconfirms: false });
		}
	}
	v
}

/// Re-runs one funding-reorg case named (Debug form) in a violation's replay file.
pub fn replay_funding_reorg(case: &str) -> i32 {
	for tier in [Tier::Quick, Tier::Thorough] {
		if let Some(c) = funding_reorg_cases(tier).into_iter().find(|c| format!("{:?}", c) == case) {
			return match par::guarded(|| funding_reorg_case(&c)) {
				Ok(Ok((problems, cmp))) => {
					for (o, d) in problems.iter() {
						println!("[funding-reorg {:?}] {} {}", c, o, d);
					}
					println!("funding-reorg case {:?}: {} comparisons, {} violations", c, cmp, problems.len());
					if problems.is_empty() { 0 } else { 1 }
				},
				Ok(Err(e)) => mc_common::cli::die(&format!("harness problem in funding-reorg case {:?}: {}", c, e)),
				Err(p) => {
					println!("funding-reorg case {:?}: panic {}", c, p);
					1
				},
			};
		}
	}
	mc_common::cli::die("unknown funding-reorg case in replay file")
}

/// Re-runs one script named in a violation's replay file.
pub fn replay_script(name: &str) -> i32 {
	for tier in [Tier::Quick, Tier::Thorough] {
		if let Some(sc) = scripts(tier).into_iter().find(|s| s.name == name) {
			return match par::guarded(|| run_script(&sc)) {
				Ok(Ok(res)) => {
					for (oracle, id, detail) in res.violations.iter() {
						println!("[{}] {} {} {}", sc.name, oracle, id, detail);
					}
					println!("script {}: {} comparisons, {} violations", sc.name, res.comparisons, res.violations.len());
					if res.violations.is_empty() { 0 } else { 1 }
				},
				Ok(Err(e)) => mc_common::cli::die(&format!("harness problem in script {}: {}", sc.name, e)),
				Err(p) => {
					println!("script {}: panic {}", sc.name, p);
					1
				},
			};
		}
	}
	mc_common::cli::die("unknown script in replay file")
}
