//! C05 – revoked state is never used and state is never revoked early.
use crate::checks::c01::{two_node_world, Ct};
use crate::oracles::{chan_infos, CommitmentOracle, NoErrorOracle, RevocationOracle, TxValidityOracle};
use crate::runner::{fill_model_checking_evidence, run_scenarios, Scenario};
use crate::sys::{Deviations, Op, Oracle, WorldSys};
use crate::world::{ClaimPolicy, Obs, Wire, World};
use mc_common::cli::{Args, Tier};
use mc_common::evidence::{Evidence, Level};
use mc_common::explore::{Config, Failure};
use mc_common::json;
use std::time::Duration;

/// A corrupted revoke_and_ack must be refused: channel error, and no `CommitmentSecret` stored.
struct TamperOracle {
	armed: bool,
	error_seen: bool,
}
impl Oracle for TamperOracle {
	fn name(&self) -> &'static str {
		"tampered-raa-rejected"
	}
	fn observe(&mut self, _w: &World, obs: &[Obs]) -> Result<(), Failure> {
		let mut in_tamper_step = false;
		let mut in_cs_step: Option<usize> = None;
		for o in obs {
			match o {
				Obs::Api { what, .. } if what == "tamper-raa" => {
					self.armed = true;
					in_tamper_step = true;
				},
				Obs::Api { what, node, .. } if what == "tamper-cs" => {
					self.armed = true;
					in_tamper_step = true;
					in_cs_step = Some(*node);
				},
				Obs::Persist { node, rec } if in_cs_step == Some(*node) => {
					if rec.steps.iter().any(|s| s.name == "LatestHolderCommitmentTXInfo" || s.name == "LatestHolderCommitment") {
						return Err(Failure::new(
							"tampered-commitment-rejected",
							format!("node {} stored as its latest commitment one that its peer had not fully signed (a signature of the commitment_signed was invalid)", node),
						));
					}
				},
				Obs::Sent { from, wire: Wire::Raa(_), .. } if in_cs_step == Some(*from) => {
					return Err(Failure::new(
						"tampered-commitment-rejected",
						format!("node {} revoked its previous commitment in answer to a commitment_signed carrying an invalid signature: it does not hold a fully signed newer commitment", from),
					));
				},
				Obs::Persist { node, rec } if in_tamper_step => {
					if rec.steps.iter().any(|s| s.name == "CommitmentSecret") {
						return Err(Failure::new(
							"tampered-raa-rejected",
							format!("node {} stored a revocation secret from a revoke_and_ack whose secret does not match the announced point", node),
						));
					}
				},
				Obs::Sent { wire: Wire::Error(_), .. } | Obs::Sent { wire: Wire::DisconnectMarker, .. } if self.armed => {
					self.error_seen = true;
				},
				_ => {},
			}
		}
		if in_tamper_step {
			crate::runner::witness(if in_cs_step.is_some() { "c05-tampered-commitment-delivered" } else { "c05-tampered-raa-delivered" });
			if !self.error_seen {
				return Err(Failure::new("tampered-raa-rejected", "corrupted revoke_and_ack / commitment_signed did not produce a channel error".to_string()));
			}
		}
		Ok(())
	}
}

#[derive(Clone, Debug)]
pub struct C05Scn {
	pub name: String,
	pub ct: Ct,
	pub ops: Vec<Op>,
	pub ops_first: bool,
	pub dev: Deviations,
	pub k: u32,
	pub max_disconnects: u32,
	pub force: bool,
	pub tamper: bool,
	/// restart scenario: the recipient persists asynchronously and may crash at any point, restarting
	/// from any admissible on-disk monitor
	pub restart: bool,
}

pub fn build(s: &C05Scn) -> WorldSys {
	if s.ops.iter().any(|o| matches!(o, Op::OpenBatch { .. })) {
		// channel opening with a batch funding transaction and a peer that announces two different points
		let mut w = World::new((0..3).map(|_| crate::checks::c01::user_config(s.ct)).collect(), 253);
		w.connect(0, 1);
		w.connect(0, 2);
		let mut sys = WorldSys::new(w, Vec::new(), s.ops.clone());
		sys.ops_first = s.ops_first;
		sys.dev = s.dev.clone();
		sys.oracles.push(Box::new(crate::oracles::ForgedPointOracle::default()));
		sys.w.obs_cursor = sys.w.obs.len();
		return sys;
	}
	if s.restart {
		let (w, chans) = crate::checks::c09::line_world(s.ct, 2, &[1]);
		let infos = chan_infos(&w, &chans);
		let rev = RevocationOracle::new(&w, infos.clone());
		let po = crate::oracles::PersistOrderOracle::new(&w, infos.clone());
		let mut sys = WorldSys::new(w, chans, s.ops.clone());
		sys.ops_first = s.ops_first;
		sys.dev = s.dev.clone();
		sys.crash_nodes = vec![1];
		sys.async_on[1] = true;
		sys.settle_on_chain = true;
		sys.oracles.push(Box::new(crate::checks::c10::CrashOracle::new(infos.clone())));
		sys.oracles.push(Box::new(po));
		sys.oracles.push(Box::new(CommitmentOracle::new(infos)));
		sys.oracles.push(Box::new(rev));
		sys.oracles.push(Box::new(TxValidityOracle::new()));
		sys.w.obs_cursor = sys.w.obs.len();
		return sys;
	}
	let (w, chans) = two_node_world(s.ct, 253);
	let infos = chan_infos(&w, &chans);
	let rev = RevocationOracle::new(&w, infos.clone());
	let mut sys = WorldSys::new(w, chans, s.ops.clone());
	sys.ops_first = s.ops_first;
	sys.dev = s.dev.clone();
	sys.max_disconnects = s.max_disconnects;
	sys.settle_on_chain = s.force || s.tamper;
	if !s.tamper {
		sys.oracles.push(Box::new(NoErrorOracle { allow_coop: false, allow_force_by_user: s.force, ..Default::default() }));
	} else {
		sys.oracles.push(Box::new(TamperOracle { armed: false, error_seen: false }));
	}
	if !s.tamper {
		sys.oracles.push(Box::new(CommitmentOracle::new(infos)));
	}
	sys.oracles.push(Box::new(rev));
	sys.oracles.push(Box::new(TxValidityOracle::new()));
	sys.w.obs_cursor = sys.w.obs.len();
	sys
}

fn send(from: usize, to: usize, amt: u64, pol: ClaimPolicy) -> Op {
	Op::Send { from, hops: vec![(to, 0)], amount_msat: amt, policy: pol }
}

pub fn scenarios(tier: Tier) -> Vec<C05Scn> {
	let mut v = Vec::new();
	let reorder = Deviations { reorder: Some(1), early_op: Some(1), ..Deviations::default() };
	let k = if tier.is_thorough() { 3 } else { 2 };
	for ct in [Ct::Static, Ct::Anchors, Ct::ZeroFee] {
		if !tier.is_thorough() && ct == Ct::ZeroFee {
			continue;
		}
		let n = format!("{:?}", ct);
		// a peer announcing two different commitment points (repeated channel_ready) at any two points of a
		// batch-funded channel opening
		v.push(C05Scn {
			name: format!("{}-batch-open-conflicting-channel-ready", n),
			ct,
			ops: vec![
				Op::OpenBatch { from: 0, to: vec![1, 2] },
				Op::ForgeChannelReady { to: 0, from: 1, variant: 1 },
				Op::ForgeChannelReady { to: 0, from: 1, variant: 2 },
			],
			ops_first: false,
			dev: Deviations { reorder: Some(1), early_op: Some(0), ..Deviations::default() },
			k: 1,
			max_disconnects: 0,
			force: false,
			tamper: false,
			restart: false,
		});
		v.push(C05Scn {
			name: format!("{}-cross", n),
			ct,
			ops: vec![send(0, 1, 50_000_000, ClaimPolicy::Claim), send(1, 0, 20_000_000, ClaimPolicy::Fail)],
			ops_first: true,
			dev: reorder.clone(),
			k,
			max_disconnects: 0,
			force: false,
			tamper: false,
			restart: false,
		});
		v.push(C05Scn {
			name: format!("{}-disconnect", n),
			ct,
			ops: vec![send(0, 1, 50_000_000, ClaimPolicy::Claim), send(1, 0, 20_000_000, ClaimPolicy::Claim)],
			ops_first: true,
			dev: Deviations { disconnect: Some(1), ..reorder.clone() },
			k,
			max_disconnects: if tier.is_thorough() { 2 } else { 1 },
			force: false,
			tamper: false,
			restart: false,
		});
		// user force-close at every point of the flow (the operation is issued early as a deviation)
		for closer in [0usize, 1] {
			v.push(C05Scn {
				name: format!("{}-forceclose-by{}", n, closer),
				ct,
				ops: vec![
					send(0, 1, 50_000_000, ClaimPolicy::Claim),
					send(1, 0, 20_000_000, ClaimPolicy::Hold),
					Op::ForceClose { node: closer, chan: 0 },
				],
				ops_first: false,
				dev: reorder.clone(),
				k: if tier.is_thorough() { 2 } else { 1 },
				max_disconnects: 0,
				force: true,
				tamper: false,
				restart: false,
			});
		}
		// restart from every admissible persisted state with asynchronous monitor writes in flight
		if ct == Ct::Static {
			v.push(C05Scn {
				name: format!("{}-restart-async", n),
				ct,
				ops: vec![send(0, 1, 50_000_000, ClaimPolicy::Claim), send(1, 0, 20_000_000, ClaimPolicy::Claim)],
				ops_first: true,
				dev: Deviations { reorder: None, early_op: None, crash: Some(1), complete_reorder: Some(1), ..Deviations::default() },
				k: if tier.is_thorough() { 2 } else { 1 },
				max_disconnects: 0,
				force: false,
				tamper: false,
				restart: true,
			});
		}
		// an asynchronous signer that stops handing out commitment points at any point and comes back at any later
		// point (signer_unblocked), with the recipient's monitor writes asynchronous in every completion order: the
		// revocation secret may only leave once the newer holder commitment is durable
		if ct == Ct::Static || tier.is_thorough() {
			v.push(C05Scn {
				name: format!("{}-async-signer-async-persist", n),
				ct,
				ops: if tier.is_thorough() { vec![send(0, 1, 50_000_000, ClaimPolicy::Claim), send(1, 0, 20_000_000, ClaimPolicy::Claim)] } else { vec![send(0, 1, 50_000_000, ClaimPolicy::Claim)] },
				ops_first: true,
				// (default order: deliveries before completions, so a write stays in flight while the dance goes on; the
				// signer may come back at any point: zero-cost alternatives)
				dev: Deviations { reorder: None, early_op: None, signer_block: Some(1), complete_reorder: if tier.is_thorough() { Some(1) } else { None }, early_release: Some(0), ..Deviations::default() },
				k: if tier.is_thorough() { 2 } else { 1 },
				max_disconnects: 0,
				force: false,
				tamper: false,
				restart: true,
			});
		}
		// corrupted commitment_signed (the commitment signature or any one HTLC signature replaced) at every
		// commitment_signed of a flow whose commitments carry up to three HTLCs
		v.push(C05Scn {
			name: format!("{}-tamper-cs", n),
			ct,
			ops: vec![send(0, 1, 50_000_000, ClaimPolicy::Claim), send(0, 1, 40_000_000, ClaimPolicy::Claim), send(1, 0, 20_000_000, ClaimPolicy::Claim)],
			ops_first: true,
			dev: Deviations { tamper_commit: Some(1), reorder: None, early_op: None, complete_reorder: None, ..Deviations::default() },
			k: 1,
			max_disconnects: 0,
			force: false,
			tamper: true,
			restart: false,
		});
		// corrupted revoke_and_ack at every RAA of the flow
		v.push(C05Scn {
			name: format!("{}-tamper-raa", n),
			ct,
			ops: vec![send(0, 1, 50_000_000, ClaimPolicy::Claim), send(1, 0, 20_000_000, ClaimPolicy::Claim)],
			ops_first: true,
			dev: Deviations { tamper_raa: Some(1), ..reorder.clone() },
			k: if tier.is_thorough() { 2 } else { 1 },
			max_disconnects: 0,
			force: false,
			tamper: true,
			restart: false,
		});
	}
	v
}

pub fn to_runner(s: C05Scn) -> Scenario {
	let cfg = Config { max_deviations: s.k, horizon: 800, ..Config::default() };
	let desc = json!({"check": "C05", "name": s.name});
	let name = s.name.clone();
	Scenario { name, cfg, factory: Box::new(move || build(&s)), desc }
}

pub fn run(args: &Args) -> i32 {
	let tier = args.tier;
	let cap = Duration::from_secs(if args.wall_cap_s > 0 {
		args.wall_cap_s
	} else if tier.is_thorough() {
		1800
	} else {
		50
	});
	let mut ev = Evidence::new("C05", tier, args.seed, Level::ModelChecking);
	let scns: Vec<Scenario> = scenarios(tier)
		.into_iter()
		.filter(|s| args.opt("only").map(|o| s.name.contains(o)).unwrap_or(true))
		.map(to_runner)
		.collect();
	let r = run_scenarios("C05", args, scns, cap);
	fill_model_checking_evidence(&mut ev, &r);
	if args.opt("only").is_none() {
		crate::runner::require_witnesses(
			&mut ev,
			&[
				"c05-release-secret",
				"c05-conflicting-point-rejected",
				"c05-sign-counterparty",
				"c05-sign-holder-commitment",
				"c05-broadcast-holder-commitment",
				"c05-tampered-raa-delivered",
				"c05-tampered-commitment-delivered",
			],
		);
	} else {
		ev.set("witnesses", json!(crate::runner::witnesses()));
	}
	ev.assume("the recording signer sees every signing / secret-release request (installed through test_utils::SIGNER_FACTORY); TestChannelSigner's own policy assertions stay enabled as a second line");
	ev.assume("secp256k1 behaves to spec");
	mc_common::findings::conclude("C05", &r.violations, &mut ev)
}

pub fn replay(name: &str, actions: &[String]) -> i32 {
	for tier in [Tier::Quick, Tier::Thorough] {
		if let Some(s) = scenarios(tier).into_iter().find(|s| s.name == name) {
			let r = mc_common::explore::replay::<WorldSys>(&move || build(&s), actions, false);
			println!("{:?}", r);
			return match r {
				Ok(Ok(_)) => 0,
				_ => 1,
			};
		}
	}
	mc_common::cli::die("unknown scenario in replay file")
}
