//! C12, second half – `ProbabilisticScorer` and `OutputSweeper` survive serialization unchanged.
//!
//! Both objects are driven through *every* operation sequence up to a depth bound over a small
//! alphabet (explicit-state search over the real objects; a state is the operation history that
//! reaches it). In every reached state the object is written and read back and must
//!  * decode,
//!  * show the same externally observable state as the live object, and
//!  * react to every operation of the alphabet exactly like the live object (one-step lookahead on the
//!    re-read copy, which by induction over the search covers "all subsequent operations").
//! The written bytes also go through the unknown-odd / unknown-even TLV probes.
use crate::base::{McBroadcaster, McLogger};
use bitcoin::block::{Header, Version};
use bitcoin::constants::ChainHash;
use bitcoin::hashes::Hash;
use bitcoin::secp256k1::{PublicKey, Secp256k1, SecretKey};
use bitcoin::{Amount, BlockHash, CompactTarget, Network, ScriptBuf, Transaction, TxMerkleNode, TxOut, Txid};
use lightning::chain::chaininterface::{ConfirmationTarget, FeeEstimator};
use lightning::chain::transaction::OutPoint;
use lightning::chain::{BlockLocator, Confirm, Filter, Listen, WatchedOutput};
use lightning::ln::chan_utils::make_funding_redeemscript;
use lightning::ln::msgs::{UnsignedChannelAnnouncement, UnsignedChannelUpdate};
use lightning::ln::types::ChannelId;
use lightning::routing::gossip::{NetworkGraph, NodeId};
use lightning::routing::router::{CandidateRouteHop, Path, PublicHopCandidate, RouteHop};
use lightning::routing::scoring::{
	ChannelUsage, ProbabilisticScorer, ProbabilisticScoringDecayParameters, ProbabilisticScoringFeeParameters, ScoreLookUp, ScoreUpdate,
};
use lightning::routing::utxo::{UtxoLookup, UtxoResult};
use lightning::sign::{ChangeDestinationSourceSync, KeysManager, SignerProvider, SpendableOutputDescriptor};
use lightning::types::features::{ChannelFeatures, NodeFeatures};
use lightning::util::persist::KVStoreSync;
use lightning::util::ser::{ReadableArgs, Writeable};
use lightning::util::sweep::OutputSweeperSync;
use lightning::util::wakers::Notifier;
use mc_common::findings::Violation;
use mc_common::json;
use std::sync::{Arc, Mutex};
use std::time::Duration;

pub struct AuxStats {
	pub scorer_states: u64,
	pub scorer_lookaheads: u64,
	pub scorer_distinct_observations: u64,
	pub scorer_tlv_probes: u64,
	pub sweeper_states: u64,
	pub sweeper_states_written: u64,
	pub sweeper_lookaheads: u64,
	pub sweeper_distinct_observations: u64,
	pub sweeper_tlv_probes: u64,
	pub depth_scorer: usize,
	pub depth_sweeper: usize,
	pub graph_length_cases: u64,
	pub graph_length_roundtrips_ok: u64,
}

// =================================================================================================
// scorer
// =================================================================================================
type Graph = NetworkGraph<Arc<McLogger>>;
type Scorer = ProbabilisticScorer<Arc<Graph>, Arc<McLogger>>;

fn pk(b: u8) -> PublicKey {
	PublicKey::from_secret_key(&Secp256k1::new(), &SecretKey::from_slice(&[b; 32]).unwrap())
}

struct OneUtxo(u64, ScriptBuf);
impl UtxoLookup for OneUtxo {
	fn get_utxo(&self, _chain: &ChainHash, _scid: u64, _n: Arc<Notifier>) -> UtxoResult {
		UtxoResult::Sync(Ok(TxOut { value: Amount::from_sat(self.0), script_pubkey: self.1.clone() }))
	}
}

const NODES: [u8; 3] = [11, 7, 13];
/// (scid, node a, node b, capacity sat)
const CHANS: [(u64, usize, usize, u64); 3] = [(1, 0, 1, 1_000_000), (2, 1, 2, 500_000), (3, 0, 2, 2_000_000)];

fn build_graph(logger: &Arc<McLogger>) -> Arc<Graph> {
	let ng = NetworkGraph::new(Network::Testnet, logger.clone());
	let chain = ChainHash::using_genesis_block(Network::Testnet);
	let (b1, b2) = (pk(101), pk(102));
	let script = make_funding_redeemscript(&b1, &b2).to_p2wsh();
	for (scid, a, b, cap) in CHANS.iter() {
		let (ida, idb) = (NodeId::from_pubkey(&pk(NODES[*a])), NodeId::from_pubkey(&pk(NODES[*b])));
		let (n1, n2) = if ida < idb { (ida, idb) } else { (idb, ida) };
		let ann = UnsignedChannelAnnouncement {
			features: ChannelFeatures::empty(),
			chain_hash: chain,
			short_channel_id: *scid,
			node_id_1: n1,
			node_id_2: n2,
			bitcoin_key_1: NodeId::from_pubkey(&b1),
			bitcoin_key_2: NodeId::from_pubkey(&b2),
			excess_data: Vec::new(),
		};
		ng.update_channel_from_unsigned_announcement(&ann, &Some(&OneUtxo(*cap, script.clone()))).expect("announcement");
		for dir in 0..2u8 {
			let upd = UnsignedChannelUpdate {
				chain_hash: chain,
				short_channel_id: *scid,
				timestamp: 100,
				message_flags: 1,
				channel_flags: dir,
				cltv_expiry_delta: 40,
				htlc_minimum_msat: 1,
				htlc_maximum_msat: cap * 1000,
				fee_base_msat: 1000,
				fee_proportional_millionths: 0,
				excess_data: Vec::new(),
			};
			ng.update_channel_unsigned(&upd).expect("update");
		}
	}
	Arc::new(ng)
}

#[derive(Clone, Debug, PartialEq)]
enum SOp {
	/// path index, amount index, failing hop (None = success), probe?
	Pay { path: usize, amt: usize, fail_at: Option<usize>, probe: bool },
	Time { secs: u64 },
}

/// node indices along each path (source is node 0)
const PATHS: [&[(u64, usize)]; 3] = [&[(1, 1)], &[(1, 1), (2, 2)], &[(3, 2)]];
const AMTS: [u64; 2] = [20_000_000, 600_000_000];

fn sops() -> Vec<SOp> {
	let mut v = Vec::new();
	for path in 0..PATHS.len() {
		for amt in 0..AMTS.len() {
			for probe in [false, true] {
				v.push(SOp::Pay { path, amt, fail_at: None, probe });
				for f in 0..PATHS[path].len() {
					v.push(SOp::Pay { path, amt, fail_at: Some(f), probe });
				}
			}
		}
	}
	v.push(SOp::Time { secs: 3600 });
	v.push(SOp::Time { secs: 40 * 86400 });
	v
}

fn make_path(path: usize, amt: usize) -> Path {
	let hops = PATHS[path];
	Path {
		hops: hops
			.iter()
			.enumerate()
			.map(|(i, (scid, node))| RouteHop {
				pubkey: pk(NODES[*node]),
				node_features: NodeFeatures::empty(),
				short_channel_id: *scid,
				channel_features: ChannelFeatures::empty(),
				fee_msat: if i + 1 == hops.len() { AMTS[amt] } else { 1000 },
				cltv_expiry_delta: 40,
				maybe_announced_channel: true,
			})
			.collect(),
		blinded_tail: None,
	}
}

fn apply_sop(s: &mut Scorer, clock: &mut u64, op: &SOp) {
	match op {
		SOp::Pay { path, amt, fail_at, probe } => {
			*clock += 60;
			let p = make_path(*path, *amt);
			let t = Duration::from_secs(*clock);
			match (fail_at, probe) {
				(None, false) => s.payment_path_successful(&p, t),
				(None, true) => s.probe_successful(&p, t),
				(Some(f), false) => s.payment_path_failed(&p, PATHS[*path][*f].0, t),
				(Some(f), true) => s.probe_failed(&p, PATHS[*path][*f].0, t),
			}
		},
		SOp::Time { secs } => {
			*clock += *secs;
			s.time_passed(Duration::from_secs(*clock));
		},
	}
}

fn scorer_obs(s: &Scorer, graph: &Graph) -> String {
	scorer_obs_with(s, graph, true)
}

/// `diversity`: switch on the probing-diversity term, the only one that reads the scorer's
/// (unpersisted) `last_update_time`.
fn scorer_obs_with(s: &Scorer, graph: &Graph, diversity: bool) -> String {
	let mut out = String::new();
	let mut fee = ProbabilisticScoringFeeParameters::default();
	fee.historical_liquidity_penalty_multiplier_msat = 10_000;
	fee.historical_liquidity_penalty_amount_multiplier_msat = 64;
	// every optional penalty term is switched on so that every persisted field is observable
	fee.probing_diversity_penalty_msat = if diversity { 250 } else { 0 };
	fee.liquidity_penalty_multiplier_msat = 30_000;
	fee.liquidity_penalty_amount_multiplier_msat = 192;
	let ro = graph.read_only();
	for (scid, a, b, cap) in CHANS.iter() {
		for target in [*a, *b] {
			let tid = NodeId::from_pubkey(&pk(NODES[target]));
			out.push_str(&format!("c{}>{}:", scid, target));
			out.push_str(&format!("r={:?};", s.estimated_channel_liquidity_range(*scid, &tid)));
			out.push_str(&format!("h={:?};", s.historical_estimated_channel_liquidity_probabilities(*scid, &tid)));
			for amt in [1_000u64, 10_000_000, 100_000_000, cap * 900] {
				let hp = s.historical_estimated_payment_success_probability(*scid, &tid, amt, &fee, true);
				let lp = s.live_estimated_payment_success_probability(*scid, &tid, amt, &fee);
				out.push_str(&format!("p{}={:?}/{:?};", amt, hp.map(|x| x.to_bits()), lp.map(|x| x.to_bits())));
				if let Some(ch) = ro.channel(*scid) {
					if let Some((info, _)) = ch.as_directed_to(&tid) {
						let usage = ChannelUsage { amount_msat: amt, inflight_htlc_msat: 0, effective_capacity: info.effective_capacity() };
						let cand = CandidateRouteHop::PublicHop(PublicHopCandidate { info, short_channel_id: *scid });
						out.push_str(&format!("pen={};", s.channel_penalty_msat(&cand, usage, &fee)));
					}
				}
			}
		}
	}
	out
}

fn new_scorer(graph: &Arc<Graph>, logger: &Arc<McLogger>) -> Scorer {
	ProbabilisticScorer::new(ProbabilisticScoringDecayParameters::default(), graph.clone(), logger.clone())
}

fn replay_scorer(graph: &Arc<Graph>, logger: &Arc<McLogger>, seq: &[SOp]) -> (Scorer, u64) {
	let mut s = new_scorer(graph, logger);
	let mut clock = 1_700_000_000u64;
	for op in seq {
		apply_sop(&mut s, &mut clock, op);
	}
	(s, clock)
}

fn reread_scorer(graph: &Arc<Graph>, logger: &Arc<McLogger>, bytes: &[u8]) -> Result<Scorer, String> {
	let mut r = &bytes[..];
	<Scorer as ReadableArgs<_>>::read(&mut r, (ProbabilisticScoringDecayParameters::default(), graph.clone(), logger.clone())).map_err(|e| format!("{:?}", e))
}

struct ScorerOut {
	states: u64,
	lookaheads: u64,
	obs: std::collections::BTreeSet<u64>,
	tlv: u64,
	problems: Vec<(String, String, String)>,
}

fn fnv(s: &str) -> u64 {
	let mut h = 0xcbf29ce484222325u64;
	for b in s.bytes() {
		h ^= b as u64;
		h = h.wrapping_mul(0x100000001b3);
	}
	h
}

fn scorer_dfs(graph: &Arc<Graph>, logger: &Arc<McLogger>, ops: &[SOp], seq: &mut Vec<SOp>, depth: usize, out: &mut ScorerOut) {
	let (live, clock) = replay_scorer(graph, logger, seq);
	out.states += 1;
	let name = || format!("{:?}", seq);
	let bytes = live.encode();
	let live_obs = scorer_obs(&live, graph);
	out.obs.insert(fnv(&live_obs));
	match reread_scorer(graph, logger, &bytes) {
		Err(e) => out.problems.push(("scorer-does-not-read-back".into(), "scorer".into(), format!("after {}: {}", name(), e))),
		Ok(re) => {
			let re_obs = scorer_obs(&re, graph);
			// Is the scorer's (unpersisted) notion of "now" the only difference? Then a neutral update at
			// the current time (a failure report for a channel the graph does not know: no liquidity changes,
			// only `last_update_time` is set) on both copies makes them agree again.
			let only_now_differs = re_obs != live_obs && scorer_obs_with(&re, graph, false) == scorer_obs_with(&live, graph, false) && {
				let (mut a, ca) = replay_scorer(graph, logger, seq);
				let mut b = reread_scorer(graph, logger, &bytes).expect("just decoded");
				let mut unknown = make_path(0, 0);
				unknown.hops[0].short_channel_id = 999;
				a.payment_path_failed(&unknown, 999, Duration::from_secs(ca));
				b.payment_path_failed(&unknown, 999, Duration::from_secs(ca));
				scorer_obs(&a, graph) == scorer_obs(&b, graph)
			};
			if only_now_differs {
				// only the term that depends on the scorer's notion of "now" differs
				out.problems.push((
					"scorer-roundtrip-changes-observable-state".into(),
					"scorer|fields=[last_update_time]".into(),
					format!("after {}: channel_penalty_msat with a non-zero probing_diversity_penalty_msat differs after a round trip: {}", name(), first_diff(&live_obs, &re_obs)),
				));
			} else if re_obs != live_obs {
				if std::env::var("MC_AUX_DEBUG").is_ok() {
					for (a, b) in live_obs.split("c").zip(re_obs.split("c")) {
						if a != b {
							eprintln!("LIVE c{}\nREAD c{}", a, b);
						}
					}
				}
				out.problems.push(("scorer-roundtrip-changes-observable-state".into(), "scorer".into(), format!("after {}: {}", name(), first_diff(&live_obs, &re_obs))));
			}
			// canonical re-encoding of the re-read object decodes to the same observable state again
			let bytes2 = re.encode();
			if let Ok(re2) = reread_scorer(graph, logger, &bytes2) {
				if scorer_obs(&re2, graph) != re_obs {
					out.problems.push(("scorer-second-roundtrip-differs".into(), "scorer".into(), format!("after {}", name())));
				}
			}
			// one-step lookahead: the re-read copy reacts to every operation like the live object
			for op in ops {
				let (mut a, mut ca) = replay_scorer(graph, logger, seq);
				apply_sop(&mut a, &mut ca, op);
				let mut b = match reread_scorer(graph, logger, &bytes) {
					Ok(b) => b,
					Err(_) => break,
				};
				let mut cb = clock;
				apply_sop(&mut b, &mut cb, op);
				out.lookaheads += 1;
				let (oa, ob) = (scorer_obs(&a, graph), scorer_obs(&b, graph));
				if oa != ob {
					out.problems.push((
						"scorer-reread-reacts-differently".into(),
						format!("scorer|{:?}", op).split(|c: char| c == '{').next().unwrap_or("").trim().to_string(),
						format!("after {} then {:?}: {}", name(), op, first_diff(&oa, &ob)),
					));
					break;
				}
			}
		},
	}
	// TLV probes on the outer stream (ChannelLiquidities is one TLV stream with the map at type 0)
	if !seq.is_empty() && seq.len() <= 2 {
		for (t, odd) in [(1_000_001u64, true), (1_000_002u64, false)] {
			let mut b = bytes.clone();
			// the object is `BigSize(len) || stream`: rewrite the length prefix with the record appended
			if let Some((off, body_len)) = outer_len_prefix(&b) {
				let mut rec = Vec::new();
				bigsize(&mut rec, t);
				bigsize(&mut rec, 2);
				rec.extend_from_slice(&[0xab, 0xcd]);
				let mut nb = Vec::new();
				bigsize(&mut nb, body_len + rec.len() as u64);
				nb.extend_from_slice(&b[off..]);
				nb.extend_from_slice(&rec);
				b = nb;
				out.tlv += 1;
				match (reread_scorer(graph, logger, &b), odd) {
					(Ok(re), true) => {
						// same object as the untouched bytes decode to
						let base = reread_scorer(graph, logger, &bytes).map(|x| scorer_obs(&x, graph)).unwrap_or_default();
						if scorer_obs(&re, graph) != base {
							out.problems.push(("odd-tlv-changes-object".into(), "scorer".into(), format!("after {}", name())));
						}
					},
					(Err(e), true) => out.problems.push(("odd-tlv-rejected".into(), "scorer".into(), format!("after {}: {}", name(), e))),
					(Ok(_), false) => out.problems.push(("even-tlv-accepted".into(), "scorer".into(), format!("after {}", name()))),
					(Err(_), false) => {},
				}
			}
		}
	}
	if seq.len() < depth {
		for op in ops {
			seq.push(op.clone());
			scorer_dfs(graph, logger, ops, seq, depth, out);
			seq.pop();
		}
	}
}

fn bigsize(v: &mut Vec<u8>, x: u64) {
	if x < 0xfd {
		v.push(x as u8);
	} else if x < 0x1_0000 {
		v.push(0xfd);
		v.extend_from_slice(&(x as u16).to_be_bytes());
	} else if x < 0x1_0000_0000 {
		v.push(0xfe);
		v.extend_from_slice(&(x as u32).to_be_bytes());
	} else {
		v.push(0xff);
		v.extend_from_slice(&x.to_be_bytes());
	}
}

/// `BigSize(len) || body` covering the whole buffer: returns (offset of body, len)
fn outer_len_prefix(b: &[u8]) -> Option<(usize, u64)> {
	let (off, len) = match *b.first()? {
		0xff => (9, u64::from_be_bytes(b.get(1..9)?.try_into().ok()?)),
		0xfe => (5, u32::from_be_bytes(b.get(1..5)?.try_into().ok()?) as u64),
		0xfd => (3, u16::from_be_bytes(b.get(1..3)?.try_into().ok()?) as u64),
		x => (1, x as u64),
	};
	if off as u64 + len == b.len() as u64 {
		Some((off, len))
	} else {
		None
	}
}

fn first_diff(a: &str, b: &str) -> String {
	let pos = a.bytes().zip(b.bytes()).position(|(x, y)| x != y).unwrap_or(a.len().min(b.len()));
	let lo = pos.saturating_sub(60);
	format!("live ...{} <> re-read ...{}", &a[lo..(pos + 100).min(a.len())], &b[lo..(pos + 100).min(b.len())])
}

// =================================================================================================
// sweeper
// =================================================================================================
struct Kv {
	last: Mutex<Option<Vec<u8>>>,
	writes: Mutex<u64>,
}
impl KVStoreSync for Kv {
	fn read(&self, _p: &str, _s: &str, _k: &str) -> Result<Vec<u8>, lightning::io::Error> {
		self.last.lock().unwrap().clone().ok_or_else(|| lightning::io::Error::new(lightning::io::ErrorKind::NotFound, "none"))
	}
	fn write(&self, _p: &str, _s: &str, _k: &str, buf: Vec<u8>) -> Result<(), lightning::io::Error> {
		*self.last.lock().unwrap() = Some(buf);
		*self.writes.lock().unwrap() += 1;
		Ok(())
	}
	fn remove(&self, _p: &str, _s: &str, _k: &str, _lazy: bool) -> Result<(), lightning::io::Error> {
		Ok(())
	}
	fn list(&self, _p: &str, _s: &str) -> Result<Vec<String>, lightning::io::Error> {
		Ok(Vec::new())
	}
}
struct Fee;
impl FeeEstimator for Fee {
	fn get_est_sat_per_1000_weight(&self, _t: ConfirmationTarget) -> u32 {
		1000
	}
}
struct Change(ScriptBuf);
impl ChangeDestinationSourceSync for Change {
	fn get_change_destination_script(&self) -> Result<ScriptBuf, ()> {
		Ok(self.0.clone())
	}
}
struct Filt(Mutex<Vec<String>>);
impl Filter for Filt {
	fn register_tx(&self, _txid: &Txid, _script: &bitcoin::Script) {}
	fn register_output(&self, o: WatchedOutput) {
		self.0.lock().unwrap().push(format!("{}:{}", o.outpoint.txid, o.outpoint.index));
	}
}

type Sweeper = OutputSweeperSync<Arc<McBroadcaster>, Arc<Change>, Arc<Fee>, Arc<Filt>, Arc<Kv>, Arc<McLogger>, Arc<KeysManager>>;

struct SwWorld {
	sw: Sweeper,
	kv: Arc<Kv>,
	bc: Arc<McBroadcaster>,
	filt: Arc<Filt>,
	keys: Arc<KeysManager>,
	logger: Arc<McLogger>,
	/// the simulated chain the sweeper is told about: (height, header, txs); a `Jump` leaves a gap
	chain: Vec<(u32, Header, Vec<Transaction>)>,
	/// transactions broadcast so far (latest last)
	broadcasts: Vec<Transaction>,
	salt: u32,
}

#[derive(Clone, Debug, PartialEq)]
enum WOp {
	Track { which: u8, delayed: bool },
	Sweep,
	/// connect a block (Listen); `with_sweep`: it confirms the most recent broadcast transaction
	Connect { with_sweep: bool },
	/// Confirm-style: transactions first, then best block
	ConfirmConnect { with_sweep: bool },
	Disconnect,
	/// Confirm-style: best block jumps far ahead (prune horizon)
	Jump,
	Unconfirm,
}

fn wops() -> Vec<WOp> {
	vec![
		WOp::Track { which: 0, delayed: false },
		WOp::Track { which: 1, delayed: false },
		WOp::Track { which: 1, delayed: true },
		WOp::Sweep,
		WOp::Connect { with_sweep: false },
		WOp::Connect { with_sweep: true },
		WOp::ConfirmConnect { with_sweep: true },
		WOp::Disconnect,
		WOp::Jump,
		WOp::Unconfirm,
	]
}

fn header(prev: BlockHash, salt: u32) -> Header {
	Header { version: Version::NO_SOFT_FORK_SIGNALLING, prev_blockhash: prev, merkle_root: TxMerkleNode::all_zeros(), time: 42 + salt, bits: CompactTarget::from_consensus(42), nonce: salt }
}

fn new_sw_world() -> SwWorld {
	let logger = Arc::new(McLogger::new(b's'));
	let keys = Arc::new(KeysManager::new(&[7u8; 32], 42, 42, true));
	let kv = Arc::new(Kv { last: Mutex::new(None), writes: Mutex::new(0) });
	let bc = Arc::new(McBroadcaster::new());
	let filt = Arc::new(Filt(Mutex::new(Vec::new())));
	let genesis = header(BlockHash::all_zeros(), 0);
	let best = BlockLocator::new(genesis.block_hash(), 0);
	let change = Arc::new(Change(ScriptBuf::new_p2wpkh(&bitcoin::WPubkeyHash::from_slice(&[9u8; 20]).unwrap())));
	let sw = OutputSweeperSync::new(best, bc.clone(), Arc::new(Fee), Some(filt.clone()), keys.clone(), change, kv.clone(), logger.clone());
	SwWorld { sw, kv, bc, filt, keys, logger, chain: vec![(0, genesis, Vec::new())], broadcasts: Vec::new(), salt: 0 }
}

fn descriptor(w: &SwWorld, which: u8) -> SpendableOutputDescriptor {
	let script = w.keys.get_destination_script([which; 32]).unwrap();
	SpendableOutputDescriptor::StaticOutput {
		outpoint: OutPoint { txid: Txid::from_slice(&[which + 1; 32]).unwrap(), index: which as u16 },
		output: TxOut { value: Amount::from_sat(50_000 + which as u64 * 10_000), script_pubkey: script },
		channel_keys_id: Some([which; 32]),
	}
}

fn collect_broadcasts(w: &mut SwWorld) {
	for b in w.bc.take() {
		for t in b.txs {
			w.broadcasts.push(t);
		}
	}
}

/// Returns false when the operation is not possible in this state (the state is then not explored).
fn apply_wop(w: &mut SwWorld, op: &WOp) -> bool {
	// a transaction confirms at most once on one chain
	if let WOp::Connect { with_sweep: true } | WOp::ConfirmConnect { with_sweep: true } = op {
		match w.broadcasts.last() {
			None => return false,
			Some(t) => {
				let id = t.compute_txid();
				if w.chain.iter().any(|(_, _, txs)| txs.iter().any(|x| x.compute_txid() == id)) {
					return false;
				}
			},
		}
	}
	if matches!(op, WOp::Disconnect) && w.chain.len() < 2 {
		return false;
	}
	if matches!(op, WOp::Unconfirm) && w.broadcasts.is_empty() {
		return false;
	}
	match op {
		WOp::Track { which, delayed } => {
			let d = descriptor(w, *which);
			let delay = if *delayed { Some(w.chain.last().unwrap().0 + 2) } else { None };
			let cp = pk(50 + which);
			let _ = w.sw.track_spendable_outputs(vec![d], Some(ChannelId([*which; 32])), Some(cp), false, delay);
		},
		WOp::Sweep => {
			let _ = w.sw.regenerate_and_broadcast_spend_if_necessary();
		},
		WOp::Connect { with_sweep } | WOp::ConfirmConnect { with_sweep } => {
			w.salt += 1;
			let prev = w.chain.last().unwrap().1.block_hash();
			let h = header(prev, w.salt);
			let txs: Vec<Transaction> = if *with_sweep { w.broadcasts.last().cloned().into_iter().collect() } else { Vec::new() };
			let height = w.chain.last().unwrap().0 + 1;
			let txdata: Vec<(usize, &Transaction)> = txs.iter().enumerate().collect();
			if matches!(op, WOp::Connect { .. }) {
				w.sw.filtered_block_connected(&h, &txdata, height);
			} else {
				if !txdata.is_empty() {
					w.sw.transactions_confirmed(&h, &txdata, height);
				}
				w.sw.best_block_updated(&h, height);
			}
			w.chain.push((height, h, txs));
		},
		WOp::Disconnect => {
			if w.chain.len() >= 2 {
				w.chain.pop();
				let (height, h, _) = w.chain.last().unwrap();
				w.sw.blocks_disconnected(BlockLocator::new(h.block_hash(), *height));
			}
		},
		WOp::Jump => {
			// 4100 empty blocks, reported through best_block_updated for the last one only (the
			// intermediate headers are of no interest to the sweeper and are not materialised)
			w.salt += 1;
			let h = header(BlockHash::from_slice(&[w.salt as u8; 32]).unwrap(), w.salt);
			let height = w.chain.last().unwrap().0 + 4100;
			w.chain.push((height, h, Vec::new()));
			w.sw.best_block_updated(&h, height);
		},
		WOp::Unconfirm => {
			if let Some(t) = w.broadcasts.last() {
				w.sw.transaction_unconfirmed(&t.compute_txid());
			}
		},
	}
	collect_broadcasts(w);
	true
}

fn sw_obs(sw: &Sweeper) -> String {
	let bb = sw.current_best_block();
	let mut rel: Vec<String> = sw.get_relevant_txids().iter().map(|(t, h, b)| format!("{}@{}:{:?}", t, h, b)).collect();
	rel.sort();
	format!("best={:?};outs={:?};rel={:?}", bb, sw.tracked_spendable_outputs(), rel)
}

fn replay_sw(seq: &[WOp]) -> Option<SwWorld> {
	let mut w = new_sw_world();
	for op in seq {
		if !apply_wop(&mut w, op) {
			return None;
		}
	}
	Some(w)
}

/// A second world that shares the chain/broadcast history of `w` but whose sweeper was read from `bytes`.
fn reread_sw(w: &SwWorld, bytes: &[u8]) -> Result<SwWorld, String> {
	let kv = Arc::new(Kv { last: Mutex::new(Some(bytes.to_vec())), writes: Mutex::new(0) });
	let bc = Arc::new(McBroadcaster::new());
	let filt = Arc::new(Filt(Mutex::new(Vec::new())));
	let change = Arc::new(Change(ScriptBuf::new_p2wpkh(&bitcoin::WPubkeyHash::from_slice(&[9u8; 20]).unwrap())));
	let mut r = &bytes[..];
	let (_, sw) = <(BlockLocator, Sweeper) as ReadableArgs<_>>::read(&mut r, (bc.clone(), Arc::new(Fee), Some(filt.clone()), w.keys.clone(), change, kv.clone(), w.logger.clone()))
		.map_err(|e| format!("{:?}", e))?;
	Ok(SwWorld { sw, kv, bc, filt, keys: w.keys.clone(), logger: w.logger.clone(), chain: w.chain.clone(), broadcasts: w.broadcasts.clone(), salt: w.salt })
}

struct SwOut {
	states: u64,
	written: u64,
	lookaheads: u64,
	obs: std::collections::BTreeSet<u64>,
	tlv: u64,
	problems: Vec<(String, String, String)>,
}

fn tx_key(t: &Transaction) -> String {
	let mut ins: Vec<String> = t.input.iter().map(|i| format!("{}:{}", i.previous_output.txid, i.previous_output.vout)).collect();
	ins.sort();
	let outs: Vec<String> = t.output.iter().map(|o| format!("{}:{}", o.value.to_sat(), o.script_pubkey.to_hex_string())).collect();
	format!("in={:?} out={:?} lt={}", ins, outs, t.lock_time)
}

fn sw_dfs(ops: &[WOp], seq: &mut Vec<WOp>, depth: usize, out: &mut SwOut) {
	let live = match replay_sw(seq) {
		Some(w) => w,
		None => return,
	};
	out.states += 1;
	let name = format!("{:?}", seq);
	let live_obs = sw_obs(&live.sw);
	out.obs.insert(fnv(&live_obs));
	// the object is written by the sweeper itself; a state is comparable when its last operation wrote
	let wrote_now = {
		if seq.is_empty() {
			false
		} else {
			let before = replay_sw(&seq[..seq.len() - 1]).expect("prefix of a possible sequence");
			let (a, b) = (*before.kv.writes.lock().unwrap(), *live.kv.writes.lock().unwrap());
			b > a
		}
	};
	let bytes_opt = live.kv.last.lock().unwrap().clone();
	if let (true, Some(bytes)) = (wrote_now, bytes_opt) {
		out.written += 1;
		match reread_sw(&live, &bytes) {
			Err(e) => out.problems.push(("sweeper-does-not-read-back".into(), "sweeper".into(), format!("after {}: {}", name, e))),
			Ok(re) => {
				let re_obs = sw_obs(&re.sw);
				if re_obs != live_obs {
					out.problems.push(("sweeper-roundtrip-changes-observable-state".into(), "sweeper".into(), format!("after {}: {}", name, first_diff(&live_obs, &re_obs))));
				}
				// every tracked output is registered with the chain source again
				let regs = re.filt.0.lock().unwrap().len();
				if regs != re.sw.tracked_spendable_outputs().len() {
					out.problems.push(("sweeper-reread-does-not-rewatch-outputs".into(), "sweeper".into(), format!("after {}: {} outputs tracked, {} registered", name, re.sw.tracked_spendable_outputs().len(), regs)));
				}
				for op in ops {
					let mut a = replay_sw(seq).expect("possible sequence");
					let nb = a.broadcasts.len();
					if !apply_wop(&mut a, op) {
						continue;
					}
					let mut b = match reread_sw(&live, &bytes) {
						Ok(b) => b,
						Err(_) => break,
					};
					apply_wop(&mut b, op);
					out.lookaheads += 1;
					let (oa, ob) = (sw_obs(&a.sw), sw_obs(&b.sw));
					let (ta, tb): (Vec<String>, Vec<String>) = (a.broadcasts[nb..].iter().map(tx_key).collect(), b.broadcasts[nb..].iter().map(tx_key).collect());
					if oa != ob || ta != tb {
						out.problems.push((
							"sweeper-reread-reacts-differently".into(),
							format!("sweeper|{:?}", op),
							format!("after {} then {:?}: {} / broadcasts {:?} <> {:?}", name, op, first_diff(&oa, &ob), ta, tb),
						));
						break;
					}
				}
				// TLV probes: SweeperState is one TLV stream (BigSize length prefix + records)
				if seq.len() <= 2 {
					for (t, odd) in [(1_000_001u64, true), (1_000_002u64, false)] {
						if let Some((off, body_len)) = outer_len_prefix(&bytes) {
							let mut rec = Vec::new();
							bigsize(&mut rec, t);
							bigsize(&mut rec, 2);
							rec.extend_from_slice(&[0xab, 0xcd]);
							let mut nb = Vec::new();
							bigsize(&mut nb, body_len + rec.len() as u64);
							nb.extend_from_slice(&bytes[off..]);
							nb.extend_from_slice(&rec);
							out.tlv += 1;
							match (reread_sw(&live, &nb), odd) {
								(Ok(re2), true) => {
									if sw_obs(&re2.sw) != live_obs {
										out.problems.push(("odd-tlv-changes-object".into(), "sweeper".into(), format!("after {}", name)));
									}
								},
								(Err(e), true) => out.problems.push(("odd-tlv-rejected".into(), "sweeper".into(), format!("after {}: {}", name, e))),
								(Ok(_), false) => out.problems.push(("even-tlv-accepted".into(), "sweeper".into(), format!("after {}", name))),
								(Err(_), false) => {},
							}
						}
					}
				}
			},
		}
	}
	if seq.len() < depth {
		for op in ops {
			seq.push(op.clone());
			sw_dfs(ops, seq, depth, out);
			seq.pop();
		}
	}
}

// =================================================================================================
/// NetworkGraph round trip over boundary lengths: a signed `channel_update` / `node_announcement` is stored with its
/// excess data (kept for relay up to 1024 bytes), so the lengths of the nested optional records sweep across every
/// length-prefix boundary (BigSize 0xfc/0xfd at 252/253 bytes) as the excess length runs through 0..=300.
fn graph_length_sweep(threads: usize) -> (u64, u64, Vec<(String, String, String)>) {
	use lightning::ln::msgs::{ChannelUpdate, NodeAnnouncement, SocketAddress, UnsignedNodeAnnouncement};
	use lightning::routing::gossip::NodeAlias;
	let mut lens: Vec<usize> = (0..=300).collect();
	lens.extend([1023usize, 1024, 1025]);
	let res = mc_common::par::map(&lens, threads, |_, l| {
		let secp = Secp256k1::new();
		let logger = Arc::new(McLogger::new(b'g'));
		let mut problems: Vec<(String, String, String)> = Vec::new();
		let mut ok = 0u64;
		for kind in 0..2u8 {
			let ng = build_graph(&logger);
			let chain = ChainHash::using_genesis_block(Network::Testnet);
			// channel 1 is between NODES[0] and NODES[1]; direction 0 is signed by the smaller node id
			let (ida, idb) = (NodeId::from_pubkey(&pk(NODES[0])), NodeId::from_pubkey(&pk(NODES[1])));
			let signer = if ida < idb { NODES[0] } else { NODES[1] };
			let sk = SecretKey::from_slice(&[signer; 32]).unwrap();
			let what = if kind == 0 {
				let contents = UnsignedChannelUpdate {
					chain_hash: chain,
					short_channel_id: 1,
					timestamp: 200,
					message_flags: 1,
					channel_flags: 0,
					cltv_expiry_delta: 41,
					htlc_minimum_msat: 2,
					htlc_maximum_msat: 900_000_000,
					fee_base_msat: 7,
					fee_proportional_millionths: 3,
					excess_data: vec![0x5a; *l],
				};
				let h = bitcoin::hashes::sha256d::Hash::hash(&contents.encode());
				let sig = secp.sign_ecdsa(&bitcoin::secp256k1::Message::from_digest(h.to_byte_array()), &sk);
				if let Err(e) = ng.update_channel(&ChannelUpdate { signature: sig, contents }) {
					problems.push(("harness".into(), format!("cu{}", l), format!("signed channel_update with {} excess bytes refused: {:?}", l, e.err)));
					continue;
				}
				"channel_update"
			} else {
				let contents = UnsignedNodeAnnouncement {
					features: NodeFeatures::empty(),
					timestamp: 200,
					node_id: NodeId::from_pubkey(&pk(signer)),
					rgb: [1, 2, 3],
					alias: NodeAlias([7; 32]),
					addresses: vec![SocketAddress::TcpIpV4 { addr: [127, 0, 0, 1], port: 9735 }],
					excess_address_data: Vec::new(),
					excess_data: vec![0xa5; *l],
				};
				let h = bitcoin::hashes::sha256d::Hash::hash(&contents.encode());
				let sig = secp.sign_ecdsa(&bitcoin::secp256k1::Message::from_digest(h.to_byte_array()), &sk);
				if let Err(e) = ng.update_node_from_announcement(&NodeAnnouncement { signature: sig, contents }) {
					problems.push(("harness".into(), format!("na{}", l), format!("signed node_announcement with {} excess bytes refused: {:?}", l, e.err)));
					continue;
				}
				"node_announcement"
			};
			let bytes = ng.encode();
			match <Graph as ReadableArgs<Arc<McLogger>>>::read(&mut &bytes[..], logger.clone()) {
				Err(e) => problems.push((
					"graph-roundtrip-read".into(),
					format!("{}:{}", what, l),
					format!("a NetworkGraph that stored a signed {} with {} bytes of excess data does not read back from its own encoding: {:?}", what, l, e),
				)),
				Ok(g2) => {
					if g2 != *ng {
						problems.push(("graph-roundtrip-eq".into(), format!("{}:{}", what, l), format!("read(write(g)) != g after a signed {} with {} bytes of excess data", what, l)));
					} else if g2.encode().len() != bytes.len() {
						problems.push(("graph-roundtrip-bytes".into(), format!("{}:{}", what, l), format!("re-encoding differs in length after a signed {} with {} excess bytes", what, l)));
					} else {
						ok += 1;
					}
				},
			}
		}
		(ok, problems)
	});
	let mut ok = 0u64;
	let mut problems = Vec::new();
	for r in res {
		match r {
			Ok((o, p)) => {
				ok += o;
				problems.extend(p);
			},
			Err(p) => problems.push(("no-panic".into(), "graph-length-sweep".into(), format!("panic in the NetworkGraph length sweep: {}", p))),
		}
	}
	(2 * lens.len() as u64, ok, problems)
}

pub fn run_aux(thorough: bool, threads: usize) -> (AuxStats, Vec<Violation>) {
	let depth_scorer = if thorough { 3 } else { 2 };
	let depth_sweeper = if thorough { 6 } else { 5 };
	let mut violations: Vec<Violation> = Vec::new();
	let mut seen_ids = std::collections::BTreeSet::new();
	let mut push = |oracle: String, id: String, detail: String, violations: &mut Vec<Violation>| {
		let identity = format!("{}|{}", oracle, id);
		if seen_ids.insert(identity.clone()) {
			violations.push(Violation { property: "C12".into(), oracle, identity, detail: detail.clone(), replay: json!({"aux": detail}) });
		}
	};
	// ---- scorer: parallel over the first operation ----
	let ops = sops();
	let firsts: Vec<usize> = (0..ops.len()).collect();
	let res = mc_common::par::map(&firsts, threads, |_, i| {
		let logger = Arc::new(McLogger::new(b'g'));
		let graph = build_graph(&logger);
		let ops = sops();
		let mut out = ScorerOut { states: 0, lookaheads: 0, obs: Default::default(), tlv: 0, problems: Vec::new() };
		let mut seq = vec![ops[*i].clone()];
		scorer_dfs(&graph, &logger, &ops, &mut seq, depth_scorer, &mut out);
		if *i == 0 {
			let mut e = Vec::new();
			scorer_dfs(&graph, &logger, &ops, &mut e, 0, &mut out);
		}
		out
	});
	let mut st = AuxStats {
		scorer_states: 0,
		scorer_lookaheads: 0,
		scorer_distinct_observations: 0,
		scorer_tlv_probes: 0,
		sweeper_states: 0,
		sweeper_states_written: 0,
		sweeper_lookaheads: 0,
		sweeper_distinct_observations: 0,
		sweeper_tlv_probes: 0,
		depth_scorer,
		depth_sweeper,
		graph_length_cases: 0,
		graph_length_roundtrips_ok: 0,
	};
	// ---- network graph: boundary lengths of the stored messages ----
	{
		let (cases, ok, problems) = graph_length_sweep(threads);
		st.graph_length_cases = cases;
		st.graph_length_roundtrips_ok = ok;
		for (oracle, id, detail) in problems {
			if oracle == "harness" {
				mc_common::cli::die(&detail);
			}
			push(oracle, id, detail, &mut violations);
		}
	}
	let mut sobs = std::collections::BTreeSet::new();
	for r in res {
		match r {
			Ok(o) => {
				st.scorer_states += o.states;
				st.scorer_lookaheads += o.lookaheads;
				st.scorer_tlv_probes += o.tlv;
				sobs.extend(o.obs);
				for (oracle, id, detail) in o.problems {
					push(oracle, id, detail, &mut violations);
				}
			},
			Err(p) => push("no-panic".into(), "scorer".into(), format!("scorer exploration panicked: {}", p), &mut violations),
		}
	}
	st.scorer_distinct_observations = sobs.len() as u64;
	// ---- sweeper: parallel over the first two operations ----
	let wo = wops();
	let mut pairs: Vec<(usize, usize)> = Vec::new();
	for a in 0..wo.len() {
		for b in 0..wo.len() {
			pairs.push((a, b));
		}
	}
	let res = mc_common::par::map(&pairs, threads, |idx, (a, b)| {
		let wo = wops();
		let mut out = SwOut { states: 0, written: 0, lookaheads: 0, obs: Default::default(), tlv: 0, problems: Vec::new() };
		let mut seq = vec![wo[*a].clone(), wo[*b].clone()];
		sw_dfs(&wo, &mut seq, depth_sweeper, &mut out);
		if *b == 0 {
			let mut s1 = vec![wo[*a].clone()];
			sw_dfs(&wo, &mut s1, 1, &mut out);
		}
		if idx == 0 {
			let mut e = Vec::new();
			sw_dfs(&wo, &mut e, 0, &mut out);
		}
		out
	});
	let mut wobs = std::collections::BTreeSet::new();
	for r in res {
		match r {
			Ok(o) => {
				st.sweeper_states += o.states;
				st.sweeper_states_written += o.written;
				st.sweeper_lookaheads += o.lookaheads;
				st.sweeper_tlv_probes += o.tlv;
				wobs.extend(o.obs);
				for (oracle, id, detail) in o.problems {
					push(oracle, id, detail, &mut violations);
				}
			},
			Err(p) => push("no-panic".into(), "sweeper".into(), format!("sweeper exploration panicked: {}", p), &mut violations),
		}
	}
	st.sweeper_distinct_observations = wobs.len() as u64;
	(st, violations)
}
