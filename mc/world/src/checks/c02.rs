//! C02 – a forwarding node never loses money on an HTLC it forwards.
//! C03 – every outbound payment reaches a truthful terminal outcome.
//! Both run on the A – B – C line world; the scenario families are shared.
use crate::checks::c01::Ct;
use crate::checks::c09::line_world;
use crate::checks::c10::CrashOracle;
use crate::oracles::{chan_infos, CommitmentOracle, ForwardOracle, NoErrorOracle, PaymentsResolveOracle, PersistOrderOracle, RevocationOracle, SenderOracle, TxValidityOracle};
use crate::runner::{fill_model_checking_evidence, run_scenarios, Scenario};
use crate::sys::{Deviations, Op, WorldSys};
use crate::world::ClaimPolicy;
use mc_common::cli::{Args, Tier};
use mc_common::evidence::{Evidence, Level};
use mc_common::explore::Config;
use mc_common::json;
use std::time::Duration;

#[derive(Clone, Debug)]
pub struct LineScn {
	pub name: String,
	pub ct: Ct,
	pub nodes: usize,
	pub ops: Vec<Op>,
	pub ops_first: bool,
	pub dev: Deviations,
	pub k: u32,
	pub crash_nodes: Vec<usize>,
	pub async_from_start: Vec<usize>,
	pub max_disconnects: u32,
	pub on_chain: bool,
	/// nodes whose user is slow: events stay unhandled until the very end
	pub slow_user: Vec<usize>,
}

/// A – {B, C} – D: two two-hop paths between A and D (channels 0: A-B, 1: A-C, 2: B-D, 3: C-D).
fn diamond_world(ct: Ct) -> (crate::world::World, Vec<lightning::ln::types::ChannelId>) {
	let mut w = crate::world::World::new((0..4).map(|_| crate::checks::c01::user_config(ct)).collect(), 253);
	let mut chans = Vec::new();
	for (a, b) in [(0usize, 1usize), (0, 2), (1, 3), (2, 3)] {
		chans.push(w.open_channel(a, b, 1_000_000, 400_000_000));
	}
	if ct != Ct::Static {
		w.fund_wallets();
	}
	(w, chans)
}

pub fn build(s: &LineScn, which: &str) -> WorldSys {
	let (w, chans) = if s.name.contains("diamond") {
		diamond_world(s.ct)
	} else if s.name.contains("-tight-") {
		let (w, chans) = crate::checks::c01::tight_world(s.ct, 253);
		for i in s.async_from_start.iter() {
			w.nodes[*i].persist.set_async_all(true);
		}
		(w, chans)
	} else if s.name.contains("-deferred") {
		// the crashing / stalling node (forwarder for C02, sender for C03) runs its ChainMonitor in deferred mode
		crate::checks::c09::line_world_deferred(s.ct, s.nodes, &s.async_from_start, &s.crash_nodes)
	} else {
		line_world(s.ct, s.nodes, &s.async_from_start)
	};
	let infos = chan_infos(&w, &chans);
	let po = PersistOrderOracle::new(&w, infos.clone());
	let rev = RevocationOracle::new(&w, infos.clone());
	let fwd = if s.nodes == 3 { Some(ForwardOracle::new(&w, infos.clone(), 1, 0, 1)) } else { None };
	let mut snd = SenderOracle::new(&w, 0);
	snd.allow_repeats = !s.crash_nodes.is_empty();
	let mut sys = WorldSys::new(w, chans, s.ops.clone());
	sys.ops_first = s.ops_first;
	sys.dev = s.dev.clone();
	sys.crash_nodes = s.crash_nodes.clone();
	sys.max_disconnects = s.max_disconnects;
	sys.judge_probes = !s.name.contains("-race");
	sys.settle_on_chain = s.on_chain || !s.crash_nodes.is_empty();
	for i in s.async_from_start.iter() {
		sys.async_on[*i] = true;
	}
	for i in s.slow_user.iter() {
		sys.held_events[*i] = true;
		sys.events_held_through_settle = true;
	}
	if s.crash_nodes.is_empty() {
		sys.oracles.push(Box::new(NoErrorOracle { allow_coop: false, allow_force_by_user: s.on_chain, ..Default::default() }));
		sys.oracles.push(Box::new(PaymentsResolveOracle));
	} else {
		let mut co = CrashOracle::new(infos.clone());
		co.user_close = s.ops.iter().any(|o| matches!(o, Op::ForceClose { .. }));
		sys.oracles.push(Box::new(co));
	}
	if which == "C02" {
		if let Some(f) = fwd {
			sys.oracles.push(Box::new(f));
		}
	}
	sys.oracles.push(Box::new(snd));
	sys.oracles.push(Box::new(po));
	sys.oracles.push(Box::new(CommitmentOracle::new(infos)));
	sys.oracles.push(Box::new(rev));
	sys.oracles.push(Box::new(TxValidityOracle::new()));
	sys.w.obs_cursor = sys.w.obs.len();
	sys
}

fn fwd_send(amt: u64, pol: ClaimPolicy) -> Op {
	Op::Send { from: 0, hops: vec![(1, 0), (2, 1)], amount_msat: amt, policy: pol }
}

pub fn scenarios(tier: Tier, which: &str) -> Vec<LineScn> {
	let mut v = Vec::new();
	let th = tier.is_thorough();
	let reorder = Deviations { reorder: Some(1), early_op: Some(1), ..Deviations::default() };
	let cts: Vec<Ct> = if th { vec![Ct::Static, Ct::Anchors, Ct::ZeroFee] } else { vec![Ct::Static] };
	for ct in cts {
		let n = format!("{:?}", ct);
		for (pol, pn) in [(ClaimPolicy::Claim, "claim"), (ClaimPolicy::Fail, "fail")] {
			// message / event interleavings of both links
			v.push(LineScn {
				name: format!("{}-abc-{}-reorder", n, pn),
				ct,
				nodes: 3,
				ops: vec![fwd_send(50_000_000, pol.clone())],
				ops_first: true,
				dev: reorder.clone(),
				k: if th { 3 } else { 2 },
				crash_nodes: vec![],
				async_from_start: vec![],
				max_disconnects: 0,
				on_chain: false,
				slow_user: vec![],
			});
			// either link disconnected anywhere
			v.push(LineScn {
				name: format!("{}-abc-{}-disconnect", n, pn),
				ct,
				nodes: 3,
				ops: vec![fwd_send(50_000_000, pol.clone())],
				ops_first: true,
				dev: Deviations { disconnect: Some(1), ..reorder.clone() },
				k: if th { 2 } else { 1 },
				crash_nodes: vec![],
				async_from_start: vec![],
				max_disconnects: if th { 2 } else { 1 },
				on_chain: false,
				slow_user: vec![],
			});
			// forwarder's monitor writes asynchronous, every completion order
			v.push(LineScn {
				name: format!("{}-abc-{}-async-b", n, pn),
				ct,
				nodes: 3,
				ops: vec![fwd_send(50_000_000, pol.clone())],
				ops_first: true,
				dev: Deviations { complete_reorder: Some(0), reorder: if th { Some(1) } else { None }, early_op: None, ..Deviations::default() },
				k: if th { 1 } else { 0 },
				crash_nodes: vec![],
				async_from_start: vec![1],
				max_disconnects: 0,
				on_chain: false,
				slow_user: vec![],
			});
			// deferred ChainMonitor on the forwarder (C02) / sender (C03): its background task (write the manager, then
			// flush the queued monitor operations) stalls at any point, and the node crashes at any later point or
			// between the manager write and a monitor write of one flush
			if ct == Ct::Static && (th || pn == "claim") {
				v.push(LineScn {
					name: format!("{}-abc-{}-deferred-stall-crash", n, pn),
					ct,
					nodes: 3,
					ops: vec![fwd_send(50_000_000, pol.clone())],
					ops_first: true,
					dev: Deviations { reorder: None, early_op: None, crash: Some(1), crash_inside: if th { Some(1) } else { None }, hold_manager: Some(1), complete_reorder: None, early_release: if th { Some(1) } else { None }, crash_choices_max: Some(2), ..Deviations::default() },
					k: 2,
					crash_nodes: if which == "C02" { vec![1] } else { vec![0] },
					async_from_start: vec![],
					max_disconnects: 0,
					on_chain: true,
					slow_user: vec![],
				});
			}
			// forwarder (C02) / sender (C03) crashes at every point
			if ct == Ct::Static {
				v.push(LineScn {
					name: format!("{}-abc-{}-crash", n, pn),
					ct,
					nodes: 3,
					ops: vec![fwd_send(50_000_000, pol.clone())],
					ops_first: true,
					dev: Deviations { reorder: None, early_op: None, crash: Some(1), crash_inside: Some(1), ..Deviations::default() },
					k: 1,
					crash_nodes: if which == "C02" { vec![1] } else { vec![0] },
					async_from_start: vec![],
					max_disconnects: 0,
					on_chain: true,
					slow_user: vec![],
				});
			}
		}
		// forward claim while the downstream peer has an HTLC of its own in flight towards the forwarder,
		// forwarder's monitor writes asynchronous: every completion order and two reorderings
		v.push(LineScn {
			name: format!("{}-abc-claim-cross-async-b", n),
			ct,
			nodes: 3,
			ops: vec![
				fwd_send(50_000_000, ClaimPolicy::Claim),
				Op::Send { from: 2, hops: vec![(1, 1)], amount_msat: 20_000_000, policy: ClaimPolicy::Claim },
			],
			ops_first: false,
			dev: Deviations { complete_reorder: Some(1), reorder: Some(1), early_op: Some(1), ..Deviations::default() },
			k: if th { 3 } else { 2 },
			crash_nodes: vec![],
			async_from_start: vec![1],
			max_disconnects: 0,
			on_chain: false,
			slow_user: vec![],
		});
		// two forwards sharing both channels, one claimed one failed
		v.push(LineScn {
			name: format!("{}-abc-two-forwards", n),
			ct,
			nodes: 3,
			ops: vec![fwd_send(50_000_000, ClaimPolicy::Claim), fwd_send(30_000_000, ClaimPolicy::Fail)],
			ops_first: true,
			dev: reorder.clone(),
			k: if th { 2 } else { 1 },
			crash_nodes: vec![],
			async_from_start: vec![],
			max_disconnects: 0,
			on_chain: false,
			slow_user: vec![],
		});
		if which == "C03" && ct == Ct::Static {
			// the recipient fails the payment, its last revoke_and_ack is delayed indefinitely (held link),
			// the sender closes on chain and may crash inside any block connection of the resolution
			v.push(LineScn {
				name: format!("{}-ab-fail-heldlink-forceclose-crash", n),
				ct,
				nodes: 2,
				ops: vec![
					Op::Send { from: 0, hops: vec![(1, 0)], amount_msat: 50_000_000, policy: ClaimPolicy::Fail },
					Op::ForceClose { node: 0, chan: 0 },
				],
				ops_first: false,
				dev: Deviations {
					reorder: None,
					early_op: None,
					hold_link: Some(1),
					hold_manager: Some(1),
					crash_inside: Some(1),
					early_release: None,
					// quick: the recipient->sender link only, crashes inside block connections only
					hold_link_only: if th { None } else { Some((1, 0)) },
					crash_inside_settle_only: !th,
					..Deviations::default()
				},
				k: 3,
				crash_nodes: vec![0],
				async_from_start: vec![],
				max_disconnects: 0,
				on_chain: true,
				slow_user: vec![0],
			});
		}
		// "restarts at any point" with a manager that stopped being written at any earlier point (sticky
		// hold, 1 deviation) and a crash at any later point (1 deviation): C02 for the forwarder, C03 for
		// the sender
		for (pol, pn) in [(ClaimPolicy::Claim, "claim"), (ClaimPolicy::Fail, "fail")] {
			let list: Vec<(usize, usize, &str)> = if which == "C02" { vec![(3, 1, "b")] } else { vec![(2, 0, "a"), (3, 0, "a")] };
			for (nodes, who, wn) in list {
				if !th && which == "C03" && nodes == 3 {
					continue;
				}
				let hops = if nodes == 2 { vec![(1, 0)] } else { vec![(1, 0), (2, 1)] };
				v.push(LineScn {
					name: format!("{}-{}-{}-lagging-manager-{}", n, if nodes == 2 { "ab" } else { "abc" }, pn, wn),
					ct,
					nodes,
					ops: vec![Op::Send { from: 0, hops, amount_msat: 50_000_000, policy: pol.clone() }],
					ops_first: true,
					dev: Deviations {
						reorder: None,
						early_op: None,
						crash: Some(1),
						complete_reorder: None,
						hold_manager: Some(1),
						early_release: None,
						..Deviations::default()
					},
					k: 2,
					crash_nodes: vec![who],
					async_from_start: vec![],
					max_disconnects: 0,
					on_chain: true,
					slow_user: vec![],
				});
			}
		}
		if which == "C02" {
			// late application of a monitor update: B's disk stops completing writes at some point, C's
			// messages stop arriving before one of its commitment_signed / revoke_and_ack, B pays C itself
			// (one more commitment for C, its update still in flight), C closes on chain and claims the
			// forwarded HTLC there, and B crashes at any point of the on-chain resolution and restarts from
			// what was durable (the in-flight updates are replayed onto a monitor that already saw the close)
			v.push(LineScn {
				name: format!("{}-abc-slowdisk-heldlink-cb-close-crash-b", n),
				ct,
				nodes: 3,
				ops: vec![
					Op::Send { from: 0, hops: vec![(1, 0), (2, 1)], amount_msat: 50_000_000, policy: ClaimPolicy::Hold },
					Op::Send { from: 1, hops: vec![(2, 1)], amount_msat: 20_000_000, policy: ClaimPolicy::Hold },
					Op::ForceClose { node: 2, chan: 1 },
					Op::ClaimHeld { pay: 0 },
				],
				ops_first: false,
				dev: Deviations {
					reorder: None,
					early_op: None,
					complete_reorder: None,
					hold_link: Some(1),
					hold_link_only: Some((2, 1)),
					hold_link_before_commit_msgs_only: true,
					hold_completions: Some(1),
					crash: Some(1),
					crash_after_finish_only: true,
					// quick: restart from the oldest admissible durable state only
					crash_choices_max: if th { None } else { Some(1) },
					early_release: None,
					..Deviations::default()
				},
				k: 3,
				crash_nodes: vec![1],
				async_from_start: vec![1],
				max_disconnects: 0,
				on_chain: true,
				slow_user: vec![],
			});
		}
		if which == "C03" && ct != Ct::ZeroFee {
			// the payer's disk is slow (a monitor write stays in flight from some point on), it sends exactly its
			// limit meanwhile (queued), and the peer adds an HTLC of its own before the write completes: when the
			// queued HTLC is finally released it may no longer be affordable - the payer must then be told
			v.push(LineScn {
				name: format!("{}-ab-tight-slowdisk-limit-race", n),
				ct,
				nodes: 2,
				ops: vec![
					Op::Send { from: 0, hops: vec![(1, 0)], amount_msat: 10_000_000, policy: ClaimPolicy::Claim },
					Op::Probe { node: 0, chan: 0, kind: crate::sys::ProbeKind::AtLimit },
					Op::Send { from: 1, hops: vec![(0, 0)], amount_msat: 5_000_000, policy: ClaimPolicy::Claim },
				],
				ops_first: false,
				dev: Deviations { reorder: None, early_op: Some(1), complete_reorder: None, hold_completions: Some(1), early_release: Some(0), ..Deviations::default() },
				k: 3,
				crash_nodes: vec![],
				async_from_start: vec![0],
				max_disconnects: 0,
				on_chain: false,
				slow_user: vec![],
			});
		}
		if which == "C03" && (th || ct == Ct::Static) {
			// a two-part payment over A-B-D and A-C-D while A's monitor writes may be asynchronous and either
			// first-hop peer may be away when the payment is sent; D times the incomplete payment out
			for async_a in [false, true] {
				for away in [None, Some(1usize), Some(2usize)] {
					let mut ops = Vec::new();
					if async_a {
						ops.push(Op::SetAsync { node: 0 });
					}
					if let Some(p) = away {
						ops.push(Op::DropLink { a: 0, b: p });
					}
					ops.push(Op::SendMultiPath { from: 0, paths: vec![(vec![(1, 0), (3, 2)], 30_000_000), (vec![(2, 1), (3, 3)], 20_000_000)], policy: ClaimPolicy::Claim });
					ops.push(Op::Ticks { node: 3, n: 3 });
					v.push(LineScn {
						name: format!("{}-diamond-mpp-async{}-away{}", n, async_a as u8, away.map(|x| x.to_string()).unwrap_or("none".into())),
						ct,
						nodes: 4,
						ops,
						ops_first: true,
						dev: Deviations { reorder: Some(1), early_op: None, complete_reorder: Some(1), ..Deviations::default() },
						k: 1,
						crash_nodes: vec![],
						async_from_start: vec![],
						max_disconnects: 0,
						on_chain: false,
						slow_user: vec![],
					});
				}
			}
		}
		if which == "C03" {
			// a second send with the same payment id at every point while the first is pending
			for (pol, pn) in [(ClaimPolicy::Claim, "claim"), (ClaimPolicy::Fail, "fail")] {
				for nodes in [2usize, 3] {
					if !th && nodes == 3 && pn == "claim" {
						continue;
					}
					let hops = if nodes == 2 { vec![(1, 0)] } else { vec![(1, 0), (2, 1)] };
					v.push(LineScn {
						name: format!("{}-{}-{}-resend", n, if nodes == 2 { "ab" } else { "abc" }, pn),
						ct,
						nodes,
						ops: vec![
							Op::Send { from: 0, hops: hops.clone(), amount_msat: 50_000_000, policy: pol.clone() },
							Op::Resend { pay: 0, hops: hops.clone() },
						],
						ops_first: false,
						dev: Deviations { reorder: Some(1), early_op: Some(0), ..Deviations::default() },
						k: 1,
						crash_nodes: vec![],
						async_from_start: vec![],
						max_disconnects: 0,
						on_chain: false,
						slow_user: vec![],
					});
				}
			}
			// direct payments with mixed outcomes
			v.push(LineScn {
				name: format!("{}-ab-mixed", n),
				ct,
				nodes: 2,
				ops: vec![
					Op::Send { from: 0, hops: vec![(1, 0)], amount_msat: 50_000_000, policy: ClaimPolicy::Claim },
					Op::Send { from: 0, hops: vec![(1, 0)], amount_msat: 20_000_000, policy: ClaimPolicy::Fail },
				],
				ops_first: true,
				dev: Deviations { disconnect: Some(1), ..reorder.clone() },
				k: if th { 3 } else { 2 },
				crash_nodes: vec![],
				async_from_start: vec![],
				max_disconnects: 1,
				on_chain: false,
				slow_user: vec![],
			});
		}
	}
	v
}

pub fn to_runner(s: LineScn, which: &'static str) -> Scenario {
	let mut cfg = Config { max_deviations: s.k, horizon: 1500, ..Config::default() };
	if s.name.contains("lagging-manager") {
		// a recorded finding lives here: keep exploring past it so that other violations are still seen
		cfg.branch_below_violations = true;
		cfg.max_violations = 5000;
	}
	if s.name.contains("slowdisk") {
		cfg.horizon = 3000;
	}
	let desc = json!({"check": which, "name": s.name});
	let name = s.name.clone();
	Scenario { name, cfg, factory: Box::new(move || build(&s, which)), desc }
}

pub fn run(args: &Args, which: &'static str) -> i32 {
	let tier = args.tier;
	let cap = Duration::from_secs(if args.wall_cap_s > 0 {
		args.wall_cap_s
	} else if tier.is_thorough() {
		2400
	} else {
		50
	});
	let mut ev = Evidence::new(which, tier, args.seed, Level::ModelChecking);
	let scns: Vec<Scenario> = scenarios(tier, which)
		.into_iter()
		.filter(|s| args.opt("only").map(|o| s.name.contains(o)).unwrap_or(true))
		.map(|s| to_runner(s, which))
		.collect();
	// (the deferred-mode scenario last: it must not take wall budget from the k = 3 scenarios on a loaded machine)
	let mut scns = scns;
	scns.sort_by_key(|s| if s.name.contains("deferred-stall-crash") { 1 } else { 0 });
	let mut r = run_scenarios(which, args, scns, cap);
	fill_model_checking_evidence(&mut ev, &r);
	if which == "C02" && (args.opt("only").is_none() || args.opt("only") == Some("dust")) {
		let (st, dv) = crate::checks::c02_dust::run_dust(tier.is_thorough(), args.threads);
		ev.set("dust_cases", st.cases);
		ev.set("dust_cases_ending_in_refusals", st.cases_refused_for_dust);
		ev.set("dust_max_exposure_seen_msat", st.max_dust_seen_msat);
		ev.set("dust_outcomes", json!(st.outcomes));
		if st.cases_refused_for_dust == 0 || st.max_dust_seen_msat == 0 {
			mc_common::cli::die("vacuity guard: the dust sweep never reached the limit");
		}
		if args.opt("only") == Some("dust") {
			ev.set("states", st.cases);
			ev.set("transitions", st.cases);
			ev.set("traces_validated_against_impl", st.cases);
			ev.sample(json!("dust sweep only"), 8);
		}
		r.violations.extend(dv);
	}
	if args.opt("only").is_none() {
		let req: &[&str] = if which == "C02" {
			&[
				"c02-forward-amount-and-expiry-checked",
				"c02-downstream-preimage-learned",
				"c02-upstream-fail-checked",
				"c02-funds-compared-offchain",
				"crash-restart",
				"c09-update-in-progress",
			]
		} else {
			&["c03-sender-debit-exact", "c03-path-failed-seen", "crash-restart"]
		};
		crate::runner::require_witnesses(&mut ev, req);
	} else {
		ev.set("witnesses", json!(crate::runner::witnesses()));
	}
	ev.assume("forwarding policy of the forwarder is LDK's default (base fee 1000 msat, 0 ppm, cltv_expiry_delta 72), read from the property text's 'advertised fee and CLTV delta'");
	ev.assume("explored scenarios use amounts far above the dust limit; the dust clause is decided by the separate dust sweep (fixed limit on the forwarder, payment sizes around every trimming threshold, both directions, feerate raised by either funder afterwards): per channel and per commitment the untrimmed-output-less HTLCs never add up to more than the configured limit");
	mc_common::findings::conclude(which, &r.violations, &mut ev)
}

pub fn replay(which: &'static str, name: &str, actions: &[String]) -> i32 {
	for tier in [Tier::Quick, Tier::Thorough] {
		if let Some(s) = scenarios(tier, which).into_iter().find(|s| s.name == name) {
			let r = mc_common::explore::replay::<WorldSys>(&move || build(&s, which), actions, false);
			println!("{:?}", r);
			return match r {
				Ok(Ok(_)) => 0,
				_ => 1,
			};
		}
	}
	mc_common::cli::die("unknown scenario in replay file")
}
