//! C01 – every commitment conserves the channel's funds and both peers agree on it.
use crate::oracles::{chan_infos, CommitmentOracle, NoErrorOracle};
use crate::runner::{fill_model_checking_evidence, run_scenarios, Scenario};
use crate::sys::{Deviations, Op, ProbeKind, WorldSys};
use crate::world::{ClaimPolicy, World};
use lightning::util::config::UserConfig;
use mc_common::cli::{Args, Tier};
use mc_common::evidence::{Evidence, Level};
use mc_common::explore::Config;
use mc_common::json;
use std::time::Duration;

#[derive(Clone, Copy, Debug, PartialEq, Eq)]
pub enum Ct {
	Static,
	Anchors,
	ZeroFee,
}

pub fn user_config(ct: Ct) -> UserConfig {
	let mut c = UserConfig::default();
	c.channel_handshake_config.announce_for_forwarding = true;
	c.channel_handshake_limits.force_announced_channel_preference = false;
	c.channel_handshake_config.negotiate_anchors_zero_fee_htlc_tx = ct == Ct::Anchors;
	c.channel_handshake_config.negotiate_anchor_zero_fee_commitments = ct == Ct::ZeroFee;
	c
}

/// Two nodes, one channel A(funder) – B, both sides funded.
pub fn two_node_world(ct: Ct, feerate: u32) -> (World, Vec<lightning::ln::types::ChannelId>) {
	let mut w = World::new(vec![user_config(ct), user_config(ct)], feerate);
	let cid = w.open_channel(0, 1, 1_000_000, 400_000_000);
	if ct != Ct::Static {
		w.fund_wallets();
	}
	(w, vec![cid])
}

/// Small channel in which the reserve and the commitment fee (not the in-flight cap) bind.
pub fn tight_world(ct: Ct, feerate: u32) -> (World, Vec<lightning::ln::types::ChannelId>) {
	let mut c = user_config(ct);
	c.channel_handshake_config.announced_channel_max_inbound_htlc_value_in_flight_percentage = 100;
	c.channel_handshake_config.unannounced_channel_max_inbound_htlc_value_in_flight_percentage = 100;
	let mut w = World::new(vec![c.clone(), c], feerate);
	let cid = w.open_channel(0, 1, 100_000, 30_000_000);
	(w, vec![cid])
}

#[derive(Clone, Debug)]
pub struct C01Scn {
	pub name: String,
	pub ct: Ct,
	pub ops: Vec<Op>,
	pub ops_first: bool,
	pub dev: Deviations,
	pub k: u32,
	pub max_disconnects: u32,
	pub tight: bool,
}

pub fn build(s: &C01Scn) -> WorldSys {
	let (w, chans) = if s.tight { tight_world(s.ct, 253) } else { two_node_world(s.ct, 253) };
	let infos = chan_infos(&w, &chans);
	let mut sys = WorldSys::new(w, chans, s.ops.clone());
	sys.ops_first = s.ops_first;
	sys.dev = s.dev.clone();
	sys.max_disconnects = s.max_disconnects;
	let coop = s.ops.iter().any(|o| matches!(o, Op::Shutdown { .. }));
	sys.oracles.push(Box::new(NoErrorOracle { allow_coop: coop, allow_force_by_user: false, ..Default::default() }));
	sys.oracles.push(Box::new(CommitmentOracle::new(infos)));
	// set-up observations are not judged by the step oracles
	sys.w.obs_cursor = sys.w.obs.len();
	sys
}

fn send(from: usize, to: usize, amt: u64, pol: ClaimPolicy) -> Op {
	Op::Send { from, hops: vec![(to, 0)], amount_msat: amt, policy: pol }
}

pub fn scenarios(tier: Tier) -> Vec<C01Scn> {
	let mut v = Vec::new();
	let reorder = Deviations { reorder: Some(1), early_op: Some(1), ..Deviations::default() };
	let with_disc = Deviations { disconnect: Some(1), ..reorder.clone() };
	let cts: &[Ct] = &[Ct::Static, Ct::Anchors, Ct::ZeroFee];
	// amounts around the trimming thresholds at 253 sat/kw (dust limit 354 sat; HTLC-success fee 177,
	// HTLC-timeout fee 167 for static channels; zero for anchors)
	let dust = 300_000u64;
	let at_thr_recv = 531_000u64; // 354 + 177
	let below_thr = 530_999u64;
	let large = 50_000_000u64;
	for &ct in cts {
		let thr = if ct == Ct::Static { at_thr_recv } else { 354_000 };
		let thr_below = if ct == Ct::Static { below_thr } else { 353_999 };
		let n = format!("{:?}", ct);
		// (i) one HTLC each way + resolution, concurrent (operations issued first), reorderings
		v.push(C01Scn {
			name: format!("{}-cross-claim", n),
			ct,
			ops: vec![send(0, 1, large, ClaimPolicy::Claim), send(1, 0, thr, ClaimPolicy::Claim)],
			ops_first: true,
			dev: reorder.clone(),
			k: if tier.is_thorough() { 3 } else { 2 },
			max_disconnects: 0,
			tight: false,
		});
		v.push(C01Scn {
			name: format!("{}-cross-fail-dust", n),
			ct,
			ops: vec![send(0, 1, thr_below, ClaimPolicy::Fail), send(1, 0, dust, ClaimPolicy::Claim)],
			ops_first: true,
			dev: reorder.clone(),
			k: if tier.is_thorough() { 3 } else { 2 },
			max_disconnects: 0,
			tight: false,
		});
		// (ii) 2+1 budget with a fee change, sequential default, early operations as deviations
		v.push(C01Scn {
			name: format!("{}-2+1-fee", n),
			ct,
			ops: vec![
				send(0, 1, large, ClaimPolicy::Claim),
				Op::SetFee { node: 0, rate: 506 },
				send(1, 0, thr, ClaimPolicy::Fail),
				send(0, 1, dust, ClaimPolicy::Claim),
			],
			ops_first: false,
			dev: reorder.clone(),
			k: if tier.is_thorough() { 3 } else { 2 },
			max_disconnects: 0,
			tight: false,
		});
		// (iii) disconnect / reconnect anywhere
		v.push(C01Scn {
			name: format!("{}-disconnect", n),
			ct,
			ops: vec![send(0, 1, large, ClaimPolicy::Claim), send(1, 0, thr, ClaimPolicy::Claim)],
			ops_first: true,
			dev: with_disc.clone(),
			k: if tier.is_thorough() { 3 } else { 2 },
			max_disconnects: if tier.is_thorough() { 2 } else { 1 },
			tight: false,
		});
		// (iv) cooperative close with an HTLC in flight
		v.push(C01Scn {
			name: format!("{}-shutdown", n),
			ct,
			ops: vec![send(0, 1, large, ClaimPolicy::Claim), Op::Shutdown { node: 1, chan: 0 }],
			ops_first: true,
			dev: reorder.clone(),
			k: if tier.is_thorough() { 3 } else { 2 },
			max_disconnects: 0,
			tight: false,
		});
		// (iv-b) cooperative close while an HTLC in either direction is still being removed, with the
		// connection dropping at any point of the shutdown / closing_signed exchange
		for (from, to, dn) in [(1usize, 0usize, "ba"), (0, 1, "ab")] {
			for closer in [0usize, 1] {
				if !tier.is_thorough() && (ct != Ct::Static || (dn == "ab" && closer == 0)) {
					continue;
				}
				v.push(C01Scn {
					name: format!("{}-shutdown-disconnect-{}-by{}", n, dn, closer),
					ct,
					ops: vec![send(from, to, large, ClaimPolicy::Claim), Op::Shutdown { node: closer, chan: 0 }],
					ops_first: false,
					dev: with_disc.clone(),
					k: if tier.is_thorough() { 3 } else { 2 },
					max_disconnects: 1,
					tight: false,
				});
			}
		}
		// (v) limit probes at every point of a payment flow (k <= 1 quick): sender-side exactness
		for tight in [false, true] {
			for node in [0usize, 1] {
				for kind in [ProbeKind::AtLimit, ProbeKind::AboveLimit, ProbeKind::AtMin, ProbeKind::BelowMin] {
					let base_amt = if tight { 20_000_000 } else { large };
					v.push(C01Scn {
						name: format!("{}-probe-{}-{:?}-n{}", n, if tight { "tight" } else { "wide" }, kind, node),
						ct,
						ops: vec![send(0, 1, base_amt, ClaimPolicy::Claim), Op::Probe { node, chan: 0, kind }],
						ops_first: false,
						dev: reorder.clone(),
						k: if tier.is_thorough() { 2 } else { 1 },
						max_disconnects: 0,
						tight,
					});
				}
			}
		}
		// (vi) a feerate change (both nodes' estimators move, the funder's timer fires) in flight or queued behind
		// the funder's own uncommitted update, then a payment of exactly the reported limit by either node
		if ct != Ct::ZeroFee {
			for tight in [false, true] {
				for node in [0usize, 1] {
					for rate in if tier.is_thorough() { vec![380u32, 760, 2024, 5000] } else { vec![760u32, 2024] } {
						v.push(C01Scn {
							name: format!("{}-feebump{}-then-limit-{}-n{}", n, rate, if tight { "tight" } else { "wide" }, node),
							ct,
							// (the estimators move first; the funder notices at its next timer tick)
							ops: vec![
								Op::SetFeeAll { rate },
								send(0, 1, if tight { 20_000_000 } else { large }, ClaimPolicy::Claim),
								Op::SetFee { node: 0, rate },
								Op::Probe { node, chan: 0, kind: ProbeKind::AtLimit },
							],
							ops_first: false,
							dev: reorder.clone(),
							k: if tier.is_thorough() { 3 } else { 2 },
							max_disconnects: 0,
							tight,
						});
					}
				}
			}
		}
	}
	v
}

pub fn to_runner(s: C01Scn, wall: Option<Duration>) -> Scenario {
	let mut cfg = Config { max_deviations: s.k, horizon: 600, wall_cap: wall, ..Config::default() };
	if s.name.contains("shutdown-disconnect") || s.name.contains("feebump") {
		// a recorded finding lives here: keep exploring past it so that other violations are still seen
		cfg.branch_below_violations = true;
		cfg.max_violations = 5000;
	}
	let desc = json!({"check": "C01", "name": s.name});
	let name = s.name.clone();
	Scenario { name, cfg, factory: Box::new(move || build(&s)), desc }
}

pub fn run(args: &Args) -> i32 {
	let tier = args.tier;
	let cap = Duration::from_secs(if args.wall_cap_s > 0 {
		args.wall_cap_s
	} else if tier.is_thorough() {
		1800
	} else {
		50
	});
	let mut ev = Evidence::new("C01", tier, args.seed, Level::ModelChecking);
	let scns: Vec<Scenario> = scenarios(tier)
		.into_iter()
		.filter(|s| args.opt("only").map(|o| s.name.contains(o)).unwrap_or(true))
		.map(|s| to_runner(s, None))
		.collect();
	let r = run_scenarios("C01", args, scns, cap);
	fill_model_checking_evidence(&mut ev, &r);
	if args.opt("only").is_none() {
		crate::runner::require_witnesses(
			&mut ev,
			&[
				"commitments-checked-against-model",
				"commitment-with-trimmed-htlc",
				"commitment-with-untrimmed-htlcs-both-directions",
				"commitment-after-fee-update",
				"disconnect-with-uncommitted-updates",
				"probe-at-limit",
				"probe-above-limit",
				"probe-at-minimum",
			],
		);
	} else {
		ev.set("witnesses", json!(crate::runner::witnesses()));
	}
	ev.assume("secp256k1, SHA-256 and libbitcoinconsensus behave to spec");
	ev.assume("messages on one link are delivered in FIFO order (TCP); calls into a node are atomic (no lock-level interleaving inside ChannelManager)");
	ev.assume("BOLT-3 arithmetic of the reference model transcribed from the specification (static_remote_key and anchors_zero_fee_htlc_tx); zero-fee-commitment channels are judged by conservation and peer agreement only");
	mc_common::findings::conclude("C01", &r.violations, &mut ev)
}

pub fn replay(name: &str, actions: &[String]) -> i32 {
	for tier in [Tier::Quick, Tier::Thorough] {
		if let Some(s) = scenarios(tier).into_iter().find(|s| s.name == name) {
			let r = mc_common::explore::replay::<WorldSys>(&move || build(&s), actions, false);
			println!("{:?}", r);
			return match r {
				Ok(Ok(_)) => 0,
				_ => 1,
			};
		}
	}
	mc_common::cli::die("unknown scenario in replay file")
}
