//! C10 – restarting from persisted state is safe at every crash point.
use crate::checks::c01::Ct;
use crate::checks::c09::line_world_deferred;
use crate::oracles::{chan_infos, ChanInfo, CommitmentOracle, PersistOrderOracle, RevocationOracle, TxValidityOracle};
use crate::runner::{fill_model_checking_evidence, run_scenarios, Scenario};
use crate::sys::{Deviations, Op, Oracle, WorldSys};
use crate::world::{ClaimPolicy, Obs, Wire, World};
use lightning::events::{ClosureReason, Event};
use lightning::ln::types::ChannelId;
use mc_common::cli::{Args, Tier};
use mc_common::evidence::{Evidence, Level};
use mc_common::explore::{Config, Failure};
use mc_common::json;
use std::collections::BTreeSet;
use std::time::Duration;

/// Restart oracle: a channel is force-closed on reload (OutdatedChannelManager) iff the monitor
/// loaded for it is ahead of what the manager knew when it was written; payments stay truthful
/// across restarts; no protocol error other than the consequences of such a closure.
pub struct CrashOracle {
	pub chans: Vec<ChanInfo>,
	expected_outdated: BTreeSet<(usize, ChannelId)>,
	seen_outdated: BTreeSet<(usize, ChannelId)>,
	restarted: BTreeSet<usize>,
	any_closed: bool,
	/// the scenario itself force-closes a channel (user request): errors / closures are expected
	pub user_close: bool,
	/// when set, only closures of (and errors on) these channels are expected; any other channel closing
	/// without a stale-manager restart is judged
	pub user_closed_chans: Option<BTreeSet<ChannelId>>,
}

impl CrashOracle {
	pub fn new(chans: Vec<ChanInfo>) -> Self {
		CrashOracle { chans, expected_outdated: BTreeSet::new(), seen_outdated: BTreeSet::new(), restarted: BTreeSet::new(), any_closed: false, user_close: false, user_closed_chans: None }
	}
}

impl Oracle for CrashOracle {
	fn name(&self) -> &'static str {
		"restart"
	}
	fn observe(&mut self, _w: &World, obs: &[Obs]) -> Result<(), Failure> {
		for o in obs {
			match o {
				Obs::Restarted { node, chosen, mgr_known_ids, mgr_known_open, .. } => {
					self.restarted.insert(*node);
					for (cid, mon_id) in chosen.iter() {
						let known = mgr_known_ids.iter().find(|(c, _)| c == cid).map(|(_, i)| *i);
						match known {
							Some(k) if *mon_id > k && !mgr_known_open.contains(cid) => {
								// the channel was already closed in the manager as written: nothing to force-close
								crate::runner::witness("restart-with-monitor-ahead-of-manager-channel-already-closed");
							},
							Some(k) if *mon_id > k => {
								self.expected_outdated.insert((*node, *cid));
								crate::runner::witness("restart-with-monitor-ahead-of-manager");
							},
							Some(k) if *mon_id < k => crate::runner::witness("restart-with-manager-ahead-of-monitor"),
							_ => {},
						}
					}
				},
				Obs::Event { node, ev: Event::ChannelClosed { channel_id, reason, .. } } => {
					self.any_closed = true;
					let user_close = match &self.user_closed_chans {
						Some(set) => set.contains(channel_id),
						None => self.user_close,
					};
					match reason {
						ClosureReason::OutdatedChannelManager => {
							self.seen_outdated.insert((*node, *channel_id));
							if !self.expected_outdated.contains(&(*node, *channel_id)) {
								return Err(Failure::new(
									"restart",
									format!("node {} force-closed a channel as OutdatedChannelManager although its monitor was not ahead of the manager", node),
								));
							}
						},
						ClosureReason::CounterpartyForceClosed { .. }
						| ClosureReason::CommitmentTxConfirmed
						| ClosureReason::HolderForceClosed { .. } => {
							if self.expected_outdated.is_empty() && !user_close {
								return Err(Failure::new("restart", format!("node {} closed a channel ({:?}) although no restart required it", node, reason)));
							}
						},
						other => {
							if self.expected_outdated.is_empty() && !user_close {
								return Err(Failure::new("restart", format!("node {} closed a channel: {:?}", node, other)));
							}
						},
					}
				},
				Obs::Sent { from, wire: Wire::Error(m), .. } => {
					let user_close = match &self.user_closed_chans {
						Some(set) => set.contains(&m.channel_id),
						None => self.user_close,
					};
					if self.expected_outdated.is_empty() && !user_close {
						return Err(Failure::new("restart", format!("node {} sent an error although every monitor matched its manager: {}", from, m.data)));
					}
				},
				Obs::Sent { from, wire: Wire::Warning(m), .. } => {
					return Err(Failure::new("restart", format!("node {} sent warning: {}", from, m.data)));
				},
				_ => {},
			}
		}
		Ok(())
	}
	fn at_end(&mut self, w: &mut World) -> Result<String, Failure> {
		for e in self.expected_outdated.iter() {
			if !self.seen_outdated.contains(e) {
				return Err(Failure::new(
					"restart",
					format!("node {} resumed a channel whose monitor is ahead of the manager it was restarted from (must be force-closed from the monitor's state)", e.0),
				));
			}
		}
		// payments: truthful and terminal across restarts
		let mut label = String::new();
		for p in w.payments.iter() {
			if !p.send_ok {
				continue;
			}
			let sent = w.obs.iter().filter(|o| matches!(o, Obs::Event { ev: Event::PaymentSent { payment_hash, .. }, .. } if *payment_hash == p.hash)).count();
			let failed = w.obs.iter().filter(|o| matches!(o, Obs::Event { ev: Event::PaymentFailed { payment_hash: Some(h), .. }, .. } if *h == p.hash)).count();
			let f = |d: String| Failure::new("restart-payments", d);
			if sent > 0 && failed > 0 {
				return Err(f(crate::oracles::describe_sent_and_failed(w, p.from, &p.hash, sent, failed)));
			}
			if sent > 0 && !p.claimed_by_recipient {
				return Err(f("PaymentSent although the recipient never released the preimage".into()));
			}
			let restarted_sender = self.restarted.contains(&p.from);
			if !restarted_sender && (sent > 1 || failed > 1) {
				return Err(f(format!("sender was never restarted but reported PaymentSent x{} PaymentFailed x{}", sent, failed)));
			}
			if p.claimed_by_recipient && sent == 0 {
				return Err(f(format!(
					"recipient claimed (preimage released) but the sender never saw PaymentSent (PaymentFailed x{})",
					failed
				)));
			}
			if p.failed_by_recipient && failed == 0 {
				// A sender restarted from a manager older than the send no longer lists the payment at all;
				// the property then only asks that nothing is in flight and it can never complete.
				if restarted_sender && !crate::oracles::payment_listed_or_in_flight(w, p.from, &p.id, &p.hash) {
					crate::runner::witness("restarted-sender-forgot-resolved-payment");
					label.push('0');
					continue;
				}
				return Err(f("recipient failed the payment but the sender never saw PaymentFailed".into()));
			}
			if sent == 0 && failed == 0 {
				// "outbound payments reach a truthful terminal event": everything has been resolved (on chain too), the
				// handlers have run; a payment the sender still lists as pending although none of its HTLCs is pending
				// in a channel or left to resolve on chain will never get its terminal event
				use lightning::ln::channelmanager::RecentPaymentDetails as R;
				let listed_pending = w.nodes[p.from].cm.list_recent_payments().iter().any(|r| matches!(r, R::Pending { payment_id, .. } if *payment_id == p.id));
				let in_flight: usize = w.nodes[p.from].cm.list_channels().iter().map(|c| c.pending_outbound_htlcs.iter().filter(|x| x.payment_hash == p.hash).count()).sum();
				// (an HTLC of this payment that a closed channel's monitor is still resolving on chain)
				let on_chain = w.nodes[p.from].mon.get_claimable_balances(&[]).iter().any(|b| {
					use lightning::chain::channelmonitor::Balance as B;
					match b {
						B::MaybeTimeoutClaimableHTLC { payment_hash, .. } | B::MaybePreimageClaimableHTLC { payment_hash, .. } | B::ContentiousClaimable { payment_hash, .. } => *payment_hash == p.hash,
						_ => false,
					}
				});
				if std::env::var("MC_TRACE").is_ok() {
					eprintln!("    terminal-rule: listed_pending={} in_flight={} on_chain={} events={} recent={:?}", listed_pending, in_flight, on_chain, w.nodes[p.from].has_events(), w.nodes[p.from].cm.list_recent_payments());
				}
				if listed_pending && in_flight == 0 && !on_chain && w.nodes[p.from].cm.list_channels().iter().all(|c| c.pending_outbound_htlcs.is_empty()) && !w.nodes[p.from].has_events() {
					return Err(f(format!(
						"the sender lists the payment as pending, none of its HTLCs is pending in a channel or left to resolve on chain, no event is queued: it will never see PaymentSent or PaymentFailed (restarted: {})",
						restarted_sender
					)));
				}
			}
			label.push(if sent > 0 { 'S' } else if failed > 0 { 'F' } else { '?' });
		}
		label.push_str(&format!("o{}c{}", self.seen_outdated.len(), if self.any_closed { 1 } else { 0 }));
		Ok(label)
	}
}

#[derive(Clone, Debug)]
pub struct C10Scn {
	pub name: String,
	pub ct: Ct,
	pub nodes: usize,
	pub ops: Vec<Op>,
	pub dev: Deviations,
	pub k: u32,
	pub crash_nodes: Vec<usize>,
	pub async_from_start: Vec<usize>,
	/// nodes whose ChainMonitor runs in deferred mode
	pub deferred: Vec<usize>,
}

/// A = B (two parallel channels 0 and 1), B – C (2), B – D (3): a forwarder with two channels to the
/// same upstream peer and two downstream peers.
fn fork_world(ct: Ct, intercept: bool) -> (World, Vec<ChannelId>) {
	let mut cfgs: Vec<lightning::util::config::UserConfig> = (0..4).map(|_| crate::checks::c01::user_config(ct)).collect();
	if intercept {
		// B is an LSP: it intercepts the last hop, takes 1000 msat more than its advertised fee, and its clients accept that
		cfgs[1].htlc_interception_flags = 1;
		cfgs[2].channel_config.accept_underpaying_htlcs = true;
		cfgs[3].channel_config.accept_underpaying_htlcs = true;
	}
	let mut w = World::new(cfgs, 253);
	if intercept {
		w.intercept_via = Some(1);
		w.intercept_skim_msat = Some(1000);
	}
	let mut chans = Vec::new();
	for (a, b) in [(0usize, 1usize), (0, 1), (1, 2), (1, 3)] {
		chans.push(w.open_channel(a, b, 1_000_000, 400_000_000));
	}
	if ct != Ct::Static {
		w.fund_wallets();
	}
	(w, chans)
}

pub fn build(s: &C10Scn) -> WorldSys {
	let (w, chans) = if s.name.contains("-fork-") { fork_world(s.ct, s.name.contains("intercept")) } else { line_world_deferred(s.ct, s.nodes, &s.async_from_start, &s.deferred) };
	let infos = chan_infos(&w, &chans);
	let po = PersistOrderOracle::new(&w, infos.clone());
	let rev = RevocationOracle::new(&w, infos.clone());
	let mut sys = WorldSys::new(w, chans, s.ops.clone());
	// scenarios with a held payment issue their operations one after the other, each at quiescence
	sys.ops_first = !s.ops.iter().any(|o| matches!(o, Op::ClaimHeld { .. } | Op::ForceClose { .. }));
	sys.dev = s.dev.clone();
	sys.crash_nodes = s.crash_nodes.clone();
	sys.settle_on_chain = true;
	if s.name.contains("handler-fails") {
		// the sender's event handler fails on terminal payment events throughout (until nothing else is left to do)
		sys.w.fail_terminal[0] = true;
	}
	for i in s.async_from_start.iter() {
		sys.async_on[*i] = true;
	}
	let mut co = CrashOracle::new(infos.clone());
	let closed: BTreeSet<ChannelId> = s.ops.iter().filter_map(|o| match o { Op::ForceClose { chan, .. } => Some(sys.chans[*chan]), _ => None }).collect();
	if !closed.is_empty() {
		co.user_closed_chans = Some(closed);
	}
	sys.oracles.push(Box::new(co));
	sys.oracles.push(Box::new(po));
	sys.oracles.push(Box::new(CommitmentOracle::new(infos)));
	sys.oracles.push(Box::new(rev));
	sys.oracles.push(Box::new(TxValidityOracle::new()));
	sys.w.obs_cursor = sys.w.obs.len();
	sys
}

pub fn scenarios(tier: Tier) -> Vec<C10Scn> {
	let mut v = Vec::new();
	let th = tier.is_thorough();
	let crashdev = Deviations {
		reorder: if th { Some(1) } else { None },
		early_op: None,
		crash: Some(1),
		crash_inside: Some(1),
		complete_reorder: Some(1),
		..Deviations::default()
	};
	let cts: Vec<Ct> = if th { vec![Ct::Static, Ct::Anchors] } else { vec![Ct::Static] };
	for ct in cts {
		let n = format!("{:?}", ct);
		for (pol, pn) in [(ClaimPolicy::Claim, "claim"), (ClaimPolicy::Fail, "fail")] {
			v.push(C10Scn {
				name: format!("{}-ab-{}", n, pn),
				ct,
				nodes: 2,
				ops: vec![Op::Send { from: 0, hops: vec![(1, 0)], amount_msat: 50_000_000, policy: pol.clone() }],
				dev: crashdev.clone(),
				k: if th { 2 } else { 1 },
				crash_nodes: vec![0, 1],
				async_from_start: vec![],
				deferred: vec![],
			});
			v.push(C10Scn {
				name: format!("{}-abc-{}", n, pn),
				ct,
				nodes: 3,
				ops: vec![Op::Send { from: 0, hops: vec![(1, 0), (2, 1)], amount_msat: 50_000_000, policy: pol.clone() }],
				dev: crashdev.clone(),
				k: if th { 2 } else { 1 },
				crash_nodes: vec![0, 1, 2],
				async_from_start: vec![],
				deferred: vec![],
			});
		}
		// "however far that manager lags behind the monitors": the manager stops being written at any
		// point (sticky hold, 1 deviation) and the node crashes at any later point (1 deviation)
		for (pol, pn) in [(ClaimPolicy::Claim, "claim"), (ClaimPolicy::Fail, "fail")] {
			for (nodes, who, wn) in [(2usize, 0usize, "a"), (2, 1, "b"), (3, 1, "b"), (3, 0, "a"), (3, 2, "c")] {
				if !th && !((nodes == 3 && who == 1) || (nodes == 2 && pn == "claim")) {
					continue;
				}
				let hops = if nodes == 2 { vec![(1, 0)] } else { vec![(1, 0), (2, 1)] };
				v.push(C10Scn {
					name: format!("{}-{}-{}-lagging-manager-{}", n, if nodes == 2 { "ab" } else { "abc" }, pn, wn),
					ct,
					nodes,
					ops: vec![Op::Send { from: 0, hops, amount_msat: 50_000_000, policy: pol.clone() }],
					dev: Deviations {
						reorder: None,
						early_op: None,
						crash: Some(1),
						crash_inside: None,
						complete_reorder: None,
						hold_manager: Some(1),
						early_release: None,
						..Deviations::default()
					},
					k: 2,
					crash_nodes: vec![who],
					async_from_start: vec![],
					deferred: vec![],
				});
			}
		}
		// two HTLCs in flight on the stale manager's channel, the second resolved before the crash: the
		// reload has to sort out which of the manager's HTLCs the newer monitor still has
		for (pol, pn) in [(ClaimPolicy::Fail, "fail"), (ClaimPolicy::Claim, "claim")] {
			if !th && pn == "claim" {
				continue;
			}
			v.push(C10Scn {
				name: format!("{}-ab-hold+{}-lagging-manager-a", n, pn),
				ct,
				nodes: 2,
				ops: vec![
					Op::Send { from: 0, hops: vec![(1, 0)], amount_msat: 50_000_000, policy: ClaimPolicy::Hold },
					Op::Send { from: 0, hops: vec![(1, 0)], amount_msat: 30_000_000, policy: pol.clone() },
					Op::ClaimHeld { pay: 0 },
				],
				dev: Deviations {
					reorder: None,
					early_op: None,
					crash: Some(1),
					crash_inside: None,
					complete_reorder: None,
					hold_manager: Some(1),
					early_release: None,
					..Deviations::default()
				},
				k: 2,
				crash_nodes: vec![0],
				async_from_start: vec![],
				deferred: vec![],
			});
		}
		// a forwarder with two channels to the same upstream peer: an HTLC from the first is stuck in a
		// downstream channel the forwarder closed, then a second HTLC (same per-channel id) arrives over the
		// other upstream channel and is forwarded elsewhere; the forwarder crashes at every point of that
		v.push(C10Scn {
			name: format!("{}-fork-closed-downstream-then-forward", n),
			ct,
			nodes: 4,
			ops: vec![
				Op::Send { from: 0, hops: vec![(1, 0), (2, 2)], amount_msat: 50_000_000, policy: ClaimPolicy::Hold },
				Op::ForceClose { node: 1, chan: 2 },
				Op::Send { from: 0, hops: vec![(1, 1), (3, 3)], amount_msat: 30_000_000, policy: ClaimPolicy::Claim },
			],
			dev: Deviations { reorder: None, early_op: None, crash: Some(1), crash_inside: if th { Some(1) } else { None }, complete_reorder: None, ..Deviations::default() },
			k: 1,
			crash_nodes: vec![1],
			async_from_start: vec![],
			deferred: vec![],
		});
		// the same with B acting as an intercepting LSP that skims a fee (its clients accept underpaying HTLCs):
		// the second payment waits as HTLCIntercepted / PaymentClaimable while B or the recipient D crashes at any
		// point; D lets timer ticks pass before it claims
		v.push(C10Scn {
			name: format!("{}-fork-intercept-skim-hold-ticks-claim", n),
			ct,
			nodes: 4,
			ops: vec![
				Op::Send { from: 0, hops: vec![(1, 0), (2, 2)], amount_msat: 50_000_000, policy: ClaimPolicy::Hold },
				Op::ForceClose { node: 1, chan: 2 },
				Op::Send { from: 0, hops: vec![(1, 1), (3, 3)], amount_msat: 30_000_000, policy: ClaimPolicy::Hold },
				Op::Ticks { node: 3, n: 3 },
				Op::ClaimHeld { pay: 1 },
			],
			dev: Deviations { reorder: None, early_op: None, crash: Some(1), crash_inside: None, complete_reorder: None, ..Deviations::default() },
			k: 1,
			crash_nodes: vec![1, 3],
			async_from_start: vec![],
			deferred: vec![],
		});
		// deferred ChainMonitor mode: the background task writes the manager, then flushes the queued monitor
		// operations; the node dies at every point, including between the manager write and the first monitor
		// write and between two monitor writes of one flush (crash inside, before / after the k-th Persist call)
		for (pol, pn) in [(ClaimPolicy::Claim, "claim"), (ClaimPolicy::Fail, "fail")] {
			if !th && pn == "fail" {
				continue;
			}
			v.push(C10Scn {
				name: format!("{}-abc-{}-deferred", n, pn),
				ct,
				nodes: 3,
				ops: vec![Op::Send { from: 0, hops: vec![(1, 0), (2, 1)], amount_msat: 50_000_000, policy: pol.clone() }],
				dev: crashdev.clone(),
				k: if th { 2 } else { 1 },
				crash_nodes: vec![0, 1, 2],
				async_from_start: vec![],
				deferred: vec![0, 1, 2],
			});
		}
		// ... and with the background task stalled from any point on (operations pile up unflushed, the manager
		// is not written) and the node dying at any later point
		v.push(C10Scn {
			name: format!("{}-abc-claim-deferred-stalled-b", n),
			ct,
			nodes: 3,
			ops: vec![Op::Send { from: 0, hops: vec![(1, 0), (2, 1)], amount_msat: 50_000_000, policy: ClaimPolicy::Claim }],
			dev: Deviations {
				reorder: None,
				early_op: None,
				crash: Some(1),
				crash_inside: None,
				complete_reorder: None,
				hold_manager: Some(1),
				early_release: if th { Some(1) } else { None },
				..Deviations::default()
			},
			k: if th { 3 } else { 2 },
			crash_nodes: vec![1],
			async_from_start: vec![],
			deferred: vec![1],
		});
		// "events documented as persistent are re-delivered until handled": the sender's handler accepts
		// PaymentPathFailed but fails on the terminal event; the HTLC of a channel the sender closed times out on
		// chain; the manager stops being written at any point and the node crashes at any step of the resolution
		v.push(C10Scn {
			name: format!("{}-ab-hold-forceclose-timeout-handler-fails-lagging-manager-a", n),
			ct,
			nodes: 2,
			ops: vec![
				Op::Send { from: 0, hops: vec![(1, 0)], amount_msat: 50_000_000, policy: ClaimPolicy::Hold },
				Op::ForceClose { node: 0, chan: 0 },
			],
			dev: Deviations {
				reorder: None,
				early_op: None,
				crash: Some(1),
				crash_inside: None,
				complete_reorder: None,
				hold_manager: Some(1),
				early_release: None,
				crash_after_finish_only: true,
				crash_choices_max: Some(2),
				..Deviations::default()
			},
			k: 2,
			crash_nodes: vec![0],
			async_from_start: vec![],
			deferred: vec![],
		});
		// asynchronous writes in flight at the crash: every candidate snapshot
		v.push(C10Scn {
			name: format!("{}-abc-claim-async-b", n),
			ct,
			nodes: 3,
			ops: vec![Op::Send { from: 0, hops: vec![(1, 0), (2, 1)], amount_msat: 50_000_000, policy: ClaimPolicy::Claim }],
			dev: Deviations { crash_inside: None, ..crashdev.clone() },
			k: 1,
			crash_nodes: vec![1],
			async_from_start: vec![1],
			deferred: vec![],
		});
	}
	v
}

pub fn to_runner(s: C10Scn) -> Scenario {
	let mut cfg = Config { max_deviations: s.k, horizon: 1200, ..Config::default() };
	if s.name.contains("lagging-manager") {
		// a recorded finding lives here: keep exploring past it so that other violations are still seen
		cfg.branch_below_violations = true;
		cfg.max_violations = 5000;
	}
	let desc = json!({"check": "C10", "name": s.name});
	let name = s.name.clone();
	Scenario { name, cfg, factory: Box::new(move || build(&s)), desc }
}

pub fn run(args: &Args) -> i32 {
	let tier = args.tier;
	let cap = Duration::from_secs(if args.wall_cap_s > 0 {
		args.wall_cap_s
	} else if tier.is_thorough() {
		1800
	} else {
		50
	});
	let mut ev = Evidence::new("C10", tier, args.seed, Level::FaultEnumeration);
	let scns: Vec<Scenario> = scenarios(tier)
		.into_iter()
		.filter(|s| args.opt("only").map(|o| s.name.contains(o)).unwrap_or(true))
		.map(to_runner)
		.collect();
	// the big enumerations last, so that a wall cap (loaded machine) cuts them rather than a small scenario
	let mut scns = scns;
	scns.sort_by_key(|s| if s.name.contains("deferred-stalled") || s.name.contains("abc-claim-async") { 3 } else if s.name.contains("-abc-") { 2 } else { 1 });
	let r = run_scenarios("C10", args, scns, cap);
	fill_model_checking_evidence(&mut ev, &r);
	ev.set("evaluations", r.stats.executions);
	ev.set("distinct_nontrivial", crate::runner::witnesses().get("crash-restart").copied().unwrap_or(0));
	ev.set("rule", "one evaluation = one complete execution of a payment flow on real nodes with a crash of one node at one enumerated point (between actions, or inside a handler before/after its k-th Persist call) restarted from one enumerated durable state; non-trivial = the crash actually happened and the node was rebuilt from serialized manager+monitors (counted by witness crash-restart)");
	ev.set("exhaustive", !r.stats.capped);
	if args.opt("only").is_none() {
		crate::runner::require_witnesses(
			&mut ev,
			&["crash-restart", "crash-inside-after-write", "crash-inside-before-write", "restart-with-monitor-ahead-of-manager"],
		);
	} else {
		ev.set("witnesses", json!(crate::runner::witnesses()));
	}
	ev.assume("manager persistence policy: eager (written whenever it asks for persistence after a call returns) except in the lagging-manager scenarios, where the writes stop at any one point and never resume before the crash; a manager that skips some writes and later resumes is not explored");
	ev.assume("no reorg while the node is down; the signer state survives the crash like an external signer");
	mc_common::findings::conclude("C10", &r.violations, &mut ev)
}

pub fn replay(name: &str, actions: &[String]) -> i32 {
	for tier in [Tier::Quick, Tier::Thorough] {
		if let Some(s) = scenarios(tier).into_iter().find(|s| s.name == name) {
			let r = mc_common::explore::replay::<WorldSys>(&move || build(&s), actions, false);
			println!("{:?}", r);
			return match r {
				Ok(Ok(_)) => 0,
				_ => 1,
			};
		}
	}
	mc_common::cli::die("unknown scenario in replay file")
}
