//! C07 – after a unilateral close every entitled output is recovered, validly and in time.
use crate::checks::c01::{two_node_world, Ct};
use crate::oracles::{chan_infos, CommitmentOracle, NoErrorOracle, OnChainOracle, RevocationOracle, TxValidityOracle};
use crate::runner::{fill_model_checking_evidence, run_scenarios, Scenario};
use crate::sys::{Deviations, Op, WorldSys};
use crate::world::ClaimPolicy;
use mc_common::cli::{Args, Tier};
use mc_common::evidence::{Evidence, Level};
use mc_common::explore::Config;
use mc_common::json;
use std::time::Duration;

#[derive(Clone, Debug)]
pub struct C07Scn {
	pub name: String,
	pub ct: Ct,
	pub ops: Vec<Op>,
	pub k: u32,
	pub feerate_after_close: Option<u32>,
	pub miner_delay: u32,
}

pub fn build(s: &C07Scn) -> WorldSys {
	let (w, chans) = if s.name.contains("asymdelay") {
		// the two peers impose different to_self_delays on each other (200 vs the default 144)
		let mut a = crate::checks::c01::user_config(s.ct);
		a.channel_handshake_config.our_to_self_delay = 200;
		let b = crate::checks::c01::user_config(s.ct);
		let mut w = crate::world::World::new(vec![a, b], 253);
		let cid = w.open_channel(0, 1, 1_000_000, 400_000_000);
		if s.ct != Ct::Static {
			w.fund_wallets();
		}
		(w, vec![cid])
	} else {
		two_node_world(s.ct, 253)
	};
	let infos = chan_infos(&w, &chans);
	let rev = RevocationOracle::new(&w, infos.clone());
	let oc = OnChainOracle::new(&w, infos.clone());
	let mut sys = WorldSys::new(w, chans, s.ops.clone());
	sys.ops_first = false;
	sys.dev = Deviations { reorder: Some(1), early_op: Some(1), ..Deviations::default() };
	sys.settle_on_chain = true;
	sys.sweep_at_end = true;
	sys.miner_delay = s.miner_delay;
	sys.fee_after_first_stall_block = s.feerate_after_close;
	sys.oracles.push(Box::new(NoErrorOracle { allow_coop: false, allow_force_by_user: true, ..Default::default() }));
	sys.oracles.push(Box::new(CommitmentOracle::new(infos)));
	sys.oracles.push(Box::new(rev));
	sys.oracles.push(Box::new(TxValidityOracle::new()));
	sys.oracles.push(Box::new(oc));
	sys.w.obs_cursor = sys.w.obs.len();
	sys
}

fn send(from: usize, to: usize, amt: u64, pol: ClaimPolicy) -> Op {
	Op::Send { from, hops: vec![(to, 0)], amount_msat: amt, policy: pol }
}

pub fn scenarios(tier: Tier) -> Vec<C07Scn> {
	let th = tier.is_thorough();
	let mut v = Vec::new();
	let cts: Vec<Ct> = if th { vec![Ct::Static, Ct::Anchors, Ct::ZeroFee] } else { vec![Ct::Static, Ct::Anchors] };
	for ct in cts {
		let n = format!("{:?}", ct);
		for closer in [0usize, 1] {
			// HTLCs in both directions, nobody knows a preimage: everything times out on chain
			v.push(C07Scn {
				name: format!("{}-close-by{}-timeouts", n, closer),
				ct,
				ops: vec![
					send(0, 1, 50_000_000, ClaimPolicy::Hold),
					send(1, 0, 30_000_000, ClaimPolicy::Hold),
					send(0, 1, 300_000, ClaimPolicy::Hold),
					Op::ForceClose { node: closer, chan: 0 },
				],
				k: if th { 3 } else { 2 },
				feerate_after_close: None,
				miner_delay: 0,
			});
			// different to_self_delays on the two sides (the closer's own delayed outputs use the delay the
			// *peer* imposed)
			if th || ct == Ct::Static {
				v.push(C07Scn {
					name: format!("{}-close-by{}-late-preimages-asymdelay", n, closer),
					ct,
					ops: vec![
						send(0, 1, 50_000_000, ClaimPolicy::Hold),
						send(1, 0, 30_000_000, ClaimPolicy::Hold),
						Op::ForceClose { node: closer, chan: 0 },
						Op::ClaimHeld { pay: 0 },
						Op::ClaimHeld { pay: 1 },
					],
					k: if th { 2 } else { 1 },
					feerate_after_close: None,
					miner_delay: 0,
				});
			}
			// the recipients learn the preimages only after the close: they must claim on chain before expiry
			v.push(C07Scn {
				name: format!("{}-close-by{}-late-preimages", n, closer),
				ct,
				ops: vec![
					send(0, 1, 50_000_000, ClaimPolicy::Hold),
					send(1, 0, 30_000_000, ClaimPolicy::Hold),
					Op::ForceClose { node: closer, chan: 0 },
					Op::ClaimHeld { pay: 0 },
					Op::ClaimHeld { pay: 1 },
				],
				k: if th { 3 } else { 2 },
				feerate_after_close: None,
				miner_delay: 0,
			});
			// a two-part payment over the one channel (two HTLCs with the same hash); the recipient learns the
			// preimage only after the closing commitment is confirmed (1 block) or buried (7 blocks)
			for conf in if th { vec![1u32, 3, 7] } else { vec![1u32, 7] } {
				v.push(C07Scn {
					name: format!("{}-close-by{}-samehash-preimage-after-{}conf", n, closer, conf),
					ct,
					ops: vec![
						Op::SendMultiPath { from: 0, paths: vec![(vec![(1, 0)], 30_000_000), (vec![(1, 0)], 25_000_000)], policy: ClaimPolicy::Hold },
						send(1, 0, 20_000_000, ClaimPolicy::Hold),
						Op::ForceClose { node: closer, chan: 0 },
						Op::MineBlocks { n: conf },
						Op::ClaimHeld { pay: 0 },
					],
					k: if th { 2 } else { 1 },
					feerate_after_close: None,
					miner_delay: 0,
				});
			}
			// slow confirmations: every transaction waits `delay` blocks in the mempool, so claims are re-issued with higher fees
			for delay in if th { vec![6u32, 17] } else { vec![17u32] } {
				v.push(C07Scn {
					name: format!("{}-close-by{}-late-preimages-delay{}", n, closer, delay),
					ct,
					ops: vec![
						send(0, 1, 50_000_000, ClaimPolicy::Hold),
						send(1, 0, 30_000_000, ClaimPolicy::Hold),
						Op::ForceClose { node: closer, chan: 0 },
						Op::ClaimHeld { pay: 0 },
					],
					k: if th { 2 } else { 1 },
					feerate_after_close: None,
					miner_delay: delay,
				});
			}
			// fee spike at the close that collapses while the claims are still unconfirmed
			v.push(C07Scn {
				name: format!("{}-close-by{}-fee-spike-then-drop", n, closer),
				ct,
				ops: vec![
					send(0, 1, 50_000_000, ClaimPolicy::Hold),
					send(1, 0, 30_000_000, ClaimPolicy::Hold),
					Op::SetFeeAll { rate: 5000 },
					Op::ForceClose { node: closer, chan: 0 },
					Op::ClaimHeld { pay: 0 },
				],
				k: if th { 1 } else { 0 },
				feerate_after_close: Some(253),
				miner_delay: 17,
			});
			// mixed: one claimed off-chain before the close, one pending
			v.push(C07Scn {
				name: format!("{}-close-by{}-mixed", n, closer),
				ct,
				ops: vec![
					send(0, 1, 50_000_000, ClaimPolicy::Claim),
					send(1, 0, 30_000_000, ClaimPolicy::Hold),
					Op::ForceClose { node: closer, chan: 0 },
					Op::ClaimHeld { pay: 1 },
				],
				k: if th { 3 } else { 2 },
				feerate_after_close: None,
				miner_delay: 0,
			});
		}
	}
	v
}

pub fn to_runner(s: C07Scn) -> Scenario {
	let cfg = Config { max_deviations: s.k, horizon: 2500, ..Config::default() };
	let desc = json!({"check": "C07", "name": s.name});
	let name = s.name.clone();
	Scenario { name, cfg, factory: Box::new(move || build(&s)), desc }
}

pub fn run(args: &Args) -> i32 {
	let tier = args.tier;
	let cap = Duration::from_secs(if args.wall_cap_s > 0 {
		args.wall_cap_s
	} else if tier.is_thorough() {
		2400
	} else {
		50
	});
	let mut ev = Evidence::new("C07", tier, args.seed, Level::ModelChecking);
	let scns: Vec<Scenario> =
		scenarios(tier).into_iter().filter(|s| args.opt("only").map(|o| s.name.contains(o)).unwrap_or(true)).map(to_runner).collect();
	let r = run_scenarios("C07", args, scns, cap);
	fill_model_checking_evidence(&mut ev, &r);
	if args.opt("only").is_none() {
		crate::runner::require_witnesses(
			&mut ev,
			&[
				"c07-channel-closed-on-chain",
				"c07-htlc-timed-out-on-chain",
				"c07-htlc-claimed-with-preimage-on-chain",
				"c07-entitlement-exact",
				"spendable-outputs-swept",
				"broadcast-admitted",
				"rbf-bump-checked",
			],
		);
	} else {
		ev.set("witnesses", json!(crate::runner::witnesses()));
	}
	ev.assume("the miner confirms every valid transaction in the next block (no starvation); fee-estimator trajectories other than flat and adversarial miner choices are not explored in this tier");
	ev.assume("libbitcoinconsensus script verification, nLockTime and BIP-68 finality are judged by the chain simulator for the chain the nodes were told about");
	mc_common::findings::conclude("C07", &r.violations, &mut ev)
}

pub fn replay(name: &str, actions: &[String]) -> i32 {
	for tier in [Tier::Quick, Tier::Thorough] {
		if let Some(s) = scenarios(tier).into_iter().find(|s| s.name == name) {
			let r = mc_common::explore::replay::<WorldSys>(&move || build(&s), actions, false);
			println!("{:?}", r);
			return match r {
				Ok(Ok(_)) => 0,
				_ => 1,
			};
		}
	}
	mc_common::cli::die("unknown scenario in replay file")
}
