//! C04 – inbound payments are claimable only if complete and authentic; all-or-nothing.
//!
//! Bounded exhaustive input enumeration on a real two-node world (A pays B over one or two
//! parallel channels). The reference predicate is written from the property text: an HTLC set may
//! be shown as PaymentClaimable only if the secret is the one B issued for this hash, the declared
//! total reaches the registered minimum, the parts delivered reach the declared total, the parts'
//! onion fields agree, and the claim window is non-empty; it must be shown when, in addition, the
//! expiry leaves the advertised minimum final CLTV delta.
use crate::checks::c01::{user_config, Ct};
use crate::world::{ClaimPolicy, Obs, PaymentRec, Wire, World};
use bitcoin::hashes::Hash;
use lightning::events::Event;
use lightning::ln::channelmanager::PaymentId;
use lightning::ln::outbound_payment::RecipientOnionFields;
use lightning::ln::types::ChannelId;
use lightning::types::payment::{PaymentHash, PaymentPreimage, PaymentSecret};
use mc_common::cli::{Args, Tier};
use mc_common::evidence::{Evidence, Level};
use mc_common::findings::Violation;
use mc_common::{json, par};
use std::collections::BTreeMap;

// transcribed from the library's documented constants (BOLT-compatible security parameters)
const HTLC_FAIL_BACK_BUFFER: u32 = 39; // CLTV_CLAIM_BUFFER (2*18) + LATENCY_GRACE_PERIOD_BLOCKS (3)
const MIN_FINAL_CLTV_EXPIRY_DELTA: u32 = 42;

#[derive(Clone, Debug)]
pub enum Case {
	/// secret with one bit flipped (None = genuine secret)
	Secret { flip: Option<u16> },
	/// payment secret with two bits flipped (thorough tier: every pair)
	Secret2 { a: u16, b: u16 },
	/// secret issued for another payment hash
	SecretOfOtherHash,
	/// secret issued for the same hash but a larger minimum amount
	SecretOfLargerAmount,
	/// payment registered with a 1 s expiry, paid `blocks` blocks (600 s each) later
	Expired { blocks: u32 },
	/// like `Expired`, the payment registered with a custom `min_final_cltv_expiry_delta`
	ExpiredCustomCltv { blocks: u32, delta: u16 },
	/// registered minimum m, declared total and HTLC amount relative to it
	Amount { declared_minus_min: i64, sent_minus_declared: i64 },
	/// final CLTV delta requested by the sender
	Cltv { delta: u32 },
	/// hold the payment, mine `blocks` blocks, then claim
	ClaimAt { delta: u32, blocks: u32 },
	/// hold the payment, mine `blocks` blocks, then fail it explicitly
	FailAt { blocks: u32 },
	/// two parts over two channels; which part goes first, ticks / blocks in between, mismatch kind
	Mpp { first: usize, split: u64, ticks_between: u32, blocks_between: u32, mismatch: u8, policy: u8 },
	/// two parts with different final CLTV deltas (`d_first` on the part that arrives first), held, then
	/// `rel` blocks relative to the advertised claim_deadline are mined (-1 = claim at deadline - 1) and the
	/// user claims
	MppDeadline { d_first: u32, d_second: u32, rel: i32 },
	/// two parts over two channels whose onion fields are chosen independently from a small menu
	/// (0 plain, 1 two odd custom TLVs, 2 an odd custom TLV, 3 an even custom TLV, 4 odd + even, 5 the even
	/// TLV with another value, 6 another odd TLV); `first` = which channel's part arrives first
	MppFields { first: usize, f1: u8, f2: u8 },
	/// the penultimate hop (an LSP) skims a fee and the recipient accepts underpaying HTLCs; the
	/// payment is held for `ticks` timer ticks and then claimed
	Skimmed { skim_msat: u64, ticks: u32 },
	/// spontaneous (keysend) payment with / without a payment secret
	Keysend { with_secret: bool },
}

pub struct CaseResult {
	pub label: String,
	pub claimable_shown: bool,
}

fn fresh() -> (World, Vec<ChannelId>) {
	let mut w = World::new(vec![user_config(Ct::Static), user_config(Ct::Static)], 253);
	let c1 = w.open_channel(0, 1, 1_000_000, 100_000_000);
	let c2 = w.open_channel(0, 1, 1_000_000, 100_000_000);
	w.obs_cursor = w.obs.len();
	(w, vec![c1, c2])
}

fn preimage(n: u8) -> (PaymentPreimage, PaymentHash) {
	let mut p = [0x42u8; 32];
	p[0] = n;
	let pre = PaymentPreimage(p);
	(pre, PaymentHash(bitcoin::hashes::sha256::Hash::hash(&p).to_byte_array()))
}

fn register(w: &mut World, hash: PaymentHash, min: Option<u64>, expiry_secs: u32) -> PaymentSecret {
	w.nodes[1].cm.create_inbound_payment_for_hash(hash, min, expiry_secs, None, None).expect("register").0
}

fn register_custom_cltv(w: &mut World, hash: PaymentHash, min: Option<u64>, expiry_secs: u32, delta: u16) -> PaymentSecret {
	w.nodes[1].cm.create_inbound_payment_for_hash(hash, min, expiry_secs, Some(delta), None).expect("register").0
}

fn add_payment(w: &mut World, pre: PaymentPreimage, hash: PaymentHash, secret: PaymentSecret, amount: u64, policy: ClaimPolicy, ok: bool) {
	w.payments.push(PaymentRec {
		id: PaymentId(hash.0),
		hash,
		preimage: pre,
		secret,
		from: 0,
		to: 1,
		amount_msat: amount,
		policy,
		send_ok: ok,
		send_err: String::new(),
		claimed_by_recipient: false,
		failed_by_recipient: false,
	});
}

struct Seen {
	claimable: Vec<(u64, Option<u32>)>,
	claimed: Vec<u64>,
	sent: usize,
	failed: usize,
	fulfills: usize,
	fails: usize,
	adds: Vec<(u64, u32)>,
	errors: usize,
}

fn seen(w: &World, hash: &PaymentHash) -> Seen {
	let mut s = Seen { claimable: vec![], claimed: vec![], sent: 0, failed: 0, fulfills: 0, fails: 0, adds: vec![], errors: 0 };
	let mut ids: Vec<(ChannelId, u64)> = Vec::new();
	for o in w.obs.iter() {
		match o {
			Obs::Event { node: 1, ev: Event::PaymentClaimable { payment_hash, amount_msat, claim_deadline, .. } } if payment_hash == hash => {
				s.claimable.push((*amount_msat, *claim_deadline))
			},
			Obs::Event { node: 1, ev: Event::PaymentClaimed { payment_hash, amount_msat, .. } } if payment_hash == hash => s.claimed.push(*amount_msat),
			Obs::Event { node: 0, ev: Event::PaymentSent { payment_hash, .. } } if payment_hash == hash => s.sent += 1,
			Obs::Event { node: 0, ev: Event::PaymentFailed { payment_hash: Some(h), .. } } if h == hash => s.failed += 1,
			Obs::Delivered { to: 1, wire: Wire::Add(m), .. } if m.payment_hash == *hash => {
				s.adds.push((m.amount_msat, m.cltv_expiry));
				ids.push((m.channel_id, m.htlc_id));
			},
			Obs::Sent { from: 1, wire: Wire::Fulfill(m), .. } if ids.contains(&(m.channel_id, m.htlc_id)) => s.fulfills += 1,
			Obs::Sent { from: 1, wire: Wire::Fail(m), .. } if ids.contains(&(m.channel_id, m.htlc_id)) => s.fails += 1,
			Obs::Sent { from: 1, wire: Wire::FailMalformed(m), .. } if ids.contains(&(m.channel_id, m.htlc_id)) => s.fails += 1,
			Obs::Sent { wire: Wire::Error(_), .. } | Obs::Sent { wire: Wire::Warning(_), .. } => s.errors += 1,
			Obs::Event { ev: Event::ChannelClosed { .. }, .. } => s.errors += 1,
			_ => {},
		}
	}
	s
}

fn best_height(w: &World) -> u32 {
	w.nodes[1].cm.current_best_block().height
}

fn mine_and_sync(w: &mut World, k: u32) {
	for _ in 0..k {
		w.mine_empty(1);
		w.sync_all();
		w.run_to_quiescence(200);
	}
}

/// Runs one case; Err(detail) = the property is violated.
pub fn run_case(c: &Case) -> Result<CaseResult, (String, String)> {
	let (mut w, chans) = fresh();
	let viol = |oracle: &str, d: String| -> (String, String) { (oracle.to_string(), d) };
	let m: u64 = 50_000_000;
	let (pre, hash) = preimage(1);
	let no_error = |w: &World, hash: &PaymentHash| -> Result<(), (String, String)> {
		if seen(w, hash).errors > 0 {
			Err(("no-channel-harm".to_string(), "a payment attempt produced a channel error / closure".to_string()))
		} else {
			Ok(())
		}
	};
	match c {
		Case::Secret { .. } | Case::Secret2 { .. } | Case::SecretOfOtherHash | Case::SecretOfLargerAmount | Case::Expired { .. } | Case::ExpiredCustomCltv { .. } => {
			let mut secret = match c {
				Case::ExpiredCustomCltv { delta, .. } => register_custom_cltv(&mut w, hash, Some(m), 1, *delta),
				_ => register(&mut w, hash, Some(m), if matches!(c, Case::Expired { .. }) { 1 } else { 7200 }),
			};
			let final_delta: u32 = match c {
				Case::ExpiredCustomCltv { delta, .. } => *delta as u32 + 10,
				_ => 60,
			};
			let genuine;
			match c {
				Case::Secret { flip: None } => genuine = true,
				Case::Secret { flip: Some(b) } => {
					secret.0[(*b / 8) as usize] ^= 1 << (*b % 8);
					genuine = false;
				},
				Case::Secret2 { a, b } => {
					secret.0[(*a / 8) as usize] ^= 1 << (*a % 8);
					secret.0[(*b / 8) as usize] ^= 1 << (*b % 8);
					genuine = false;
				},
				Case::SecretOfOtherHash => {
					let (_, other) = preimage(2);
					secret = register(&mut w, other, Some(m), 7200);
					genuine = false;
				},
				Case::SecretOfLargerAmount => {
					secret = register(&mut w, hash, Some(m + 1), 7200);
					genuine = false;
				},
				Case::Expired { blocks } | Case::ExpiredCustomCltv { blocks, .. } => {
					mine_and_sync(&mut w, *blocks);
					// documented: expiry is judged against the highest block timestamp seen plus a 2 h grace
					genuine = (*blocks as u64) * 600 < 1 + 7200;
				},
				_ => unreachable!(),
			}
			add_payment(&mut w, pre, hash, secret, m, ClaimPolicy::Claim, true);
			let ok = w.send_raw(0, &[(1, chans[0])], m, hash, RecipientOnionFields::secret_only(secret, m), PaymentId(hash.0), final_delta);
			if !ok {
				return Err(viol("harness", "send refused".into()));
			}
			w.run_to_quiescence(400);
			let s = seen(&w, &hash);
			no_error(&w, &hash)?;
			if genuine {
				if s.claimable.len() != 1 || s.claimed != vec![m] || s.sent != 1 {
					return Err(viol("authentic-payment-accepted", format!("genuine payment: claimable x{} claimed {:?} PaymentSent x{}", s.claimable.len(), s.claimed, s.sent)));
				}
			} else {
				if !s.claimable.is_empty() || !s.claimed.is_empty() || s.sent > 0 || s.fulfills > 0 {
					return Err(viol("unauthentic-payment-shown", format!("{:?}: PaymentClaimable x{} PaymentClaimed {:?} fulfil x{}", c, s.claimable.len(), s.claimed, s.fulfills)));
				}
				if s.failed != 1 || s.fails != 1 {
					return Err(viol("unauthentic-payment-not-failed-back", format!("{:?}: update_fail x{} PaymentFailed x{}", c, s.fails, s.failed)));
				}
			}
			Ok(CaseResult { label: format!("{}", if genuine { "accepted" } else { "rejected" }), claimable_shown: genuine })
		},
		Case::Amount { declared_minus_min, sent_minus_declared } => {
			let secret = register(&mut w, hash, Some(m), 7200);
			let declared = (m as i64 + declared_minus_min) as u64;
			let sent = (declared as i64 + sent_minus_declared) as u64;
			add_payment(&mut w, pre, hash, secret, sent, ClaimPolicy::Claim, true);
			let ok = w.send_raw(0, &[(1, chans[0])], sent, hash, RecipientOnionFields::secret_only(secret, declared), PaymentId(hash.0), 60);
			if !ok {
				return Ok(CaseResult { label: "sender-refused".into(), claimable_shown: false });
			}
			w.run_to_quiescence(400);
			// let an incomplete set time out
			for _ in 0..3 {
				w.nodes[1].cm.timer_tick_occurred();
				w.pump();
				w.run_to_quiescence(400);
			}
			let s = seen(&w, &hash);
			no_error(&w, &hash)?;
			let may = declared >= m && sent >= declared;
			let must = may && sent == declared;
			if !may && (!s.claimable.is_empty() || s.fulfills > 0 || s.sent > 0) {
				return Err(viol("incomplete-payment-shown", format!("registered min {} declared {} delivered {}: PaymentClaimable x{}", m, declared, sent, s.claimable.len())));
			}
			if !may && (s.fails != 1 || s.failed != 1) {
				return Err(viol("incomplete-payment-not-failed-back", format!("registered min {} declared {} delivered {}: update_fail x{} PaymentFailed x{}", m, declared, sent, s.fails, s.failed)));
			}
			if must && (s.claimable.len() != 1 || s.claimed != vec![sent] || s.sent != 1) {
				return Err(viol("complete-payment-not-credited", format!("declared {} delivered {}: claimable {:?} claimed {:?} PaymentSent x{}", declared, sent, s.claimable, s.claimed, s.sent)));
			}
			if !s.claimed.is_empty() && s.claimed != vec![sent] {
				return Err(viol("claimed-amount", format!("PaymentClaimed {:?} for {} msat delivered", s.claimed, sent)));
			}
			Ok(CaseResult { label: format!("{}", if s.claimable.is_empty() { "rejected" } else { "accepted" }), claimable_shown: !s.claimable.is_empty() })
		},
		Case::Cltv { delta } => {
			let secret = register(&mut w, hash, Some(m), 7200);
			add_payment(&mut w, pre, hash, secret, m, ClaimPolicy::Claim, true);
			let ok = w.send_raw(0, &[(1, chans[0])], m, hash, RecipientOnionFields::secret_only(secret, m), PaymentId(hash.0), *delta);
			if !ok {
				return Ok(CaseResult { label: "sender-refused".into(), claimable_shown: false });
			}
			let h = best_height(&w);
			w.run_to_quiescence(400);
			let s = seen(&w, &hash);
			no_error(&w, &hash)?;
			let expiry = s.adds.first().map(|a| a.1).unwrap_or(0);
			let shown = !s.claimable.is_empty();
			if shown {
				let dl = s.claimable[0].1.unwrap_or(0);
				if dl != expiry - HTLC_FAIL_BACK_BUFFER {
					return Err(viol("claim-deadline", format!("claim_deadline {} for expiry {} (buffer {})", dl, expiry, HTLC_FAIL_BACK_BUFFER)));
				}
				if dl <= h {
					return Err(viol("empty-claim-window-shown", format!("PaymentClaimable with claim_deadline {} at height {}", dl, h)));
				}
				if s.claimed != vec![m] || s.sent != 1 {
					return Err(viol("claim-before-deadline", format!("claim at height {} < deadline {} did not settle: {:?}", h, dl, s.claimed)));
				}
			} else {
				if expiry >= h + MIN_FINAL_CLTV_EXPIRY_DELTA {
					return Err(viol("valid-expiry-rejected", format!("expiry {} at height {} leaves the advertised window but was not shown", expiry, h)));
				}
				if s.fails != 1 || s.failed != 1 {
					return Err(viol("rejected-not-failed-back", format!("update_fail x{} PaymentFailed x{}", s.fails, s.failed)));
				}
			}
			Ok(CaseResult { label: format!("d{}:{}", expiry as i64 - h as i64, if shown { "shown" } else { "rejected" }), claimable_shown: shown })
		},
		Case::ClaimAt { delta, blocks } => {
			let secret = register(&mut w, hash, Some(m), 7200);
			add_payment(&mut w, pre, hash, secret, m, ClaimPolicy::Hold, true);
			w.send_raw(0, &[(1, chans[0])], m, hash, RecipientOnionFields::secret_only(secret, m), PaymentId(hash.0), *delta);
			w.run_to_quiescence(400);
			let s0 = seen(&w, &hash);
			if s0.claimable.len() != 1 {
				return Err(viol("harness", "held payment not claimable".into()));
			}
			let deadline = s0.claimable[0].1.unwrap_or(0);
			mine_and_sync(&mut w, *blocks);
			let h = best_height(&w);
			let before = seen(&w, &hash);
			w.nodes[1].cm.claim_funds(pre);
			w.payments[0].claimed_by_recipient = true;
			w.pump();
			w.run_to_quiescence(400);
			let s = seen(&w, &hash);
			if h < deadline {
				if before.fails > 0 {
					return Err(viol("failed-before-deadline", format!("node failed the payment back at height {} < claim_deadline {}", h, deadline)));
				}
				if s.claimed != vec![m] || s.sent != 1 || s.fulfills != 1 {
					return Err(viol("claim-before-deadline", format!("claim_funds at height {} < claim_deadline {}: PaymentClaimed {:?} PaymentSent x{} errors {}", h, deadline, s.claimed, s.sent, s.errors)));
				}
				no_error(&w, &hash)?;
			} else {
				if before.fails != 1 {
					return Err(viol("not-failed-at-deadline", format!("at height {} >= claim_deadline {} the node had not failed the payment back itself (fails x{})", h, deadline, before.fails)));
				}
				if !s.claimed.is_empty() || s.fulfills > 0 {
					return Err(viol("all-or-nothing", "payment both failed back and claimed".into()));
				}
			}
			Ok(CaseResult { label: format!("{}", if h < deadline { "claimed" } else { "expired" }), claimable_shown: true })
		},
		Case::FailAt { blocks } => {
			let secret = register(&mut w, hash, Some(m), 7200);
			add_payment(&mut w, pre, hash, secret, m, ClaimPolicy::Hold, true);
			w.send_raw(0, &[(1, chans[0])], m, hash, RecipientOnionFields::secret_only(secret, m), PaymentId(hash.0), 60);
			w.run_to_quiescence(400);
			mine_and_sync(&mut w, *blocks);
			w.nodes[1].cm.fail_htlc_backwards(&hash);
			w.pump();
			w.run_to_quiescence(400);
			let s = seen(&w, &hash);
			no_error(&w, &hash)?;
			if s.fails != 1 || s.failed != 1 || !s.claimed.is_empty() || s.sent > 0 {
				return Err(viol("explicit-fail", format!("fail_htlc_backwards: update_fail x{} PaymentFailed x{} claimed {:?}", s.fails, s.failed, s.claimed)));
			}
			Ok(CaseResult { label: "failed".into(), claimable_shown: true })
		},
		Case::Mpp { first, split, ticks_between, blocks_between, mismatch, policy } => {
			let total = m;
			let secret = register(&mut w, hash, Some(m), 7200);
			let (_, other_hash) = preimage(3);
			let other_secret = register(&mut w, other_hash, Some(m), 7200);
			let a1 = *split;
			let a2 = total - a1;
			let pol = match policy {
				0 => ClaimPolicy::Claim,
				1 => ClaimPolicy::Fail,
				_ => ClaimPolicy::Hold,
			};
			add_payment(&mut w, pre, hash, secret, total, pol.clone(), true);
			let parts = [(chans[*first], a1), (chans[1 - *first], a2)];
			// part 1
			let f1 = RecipientOnionFields::secret_only(secret, total);
			let f2 = match mismatch {
				0 => RecipientOnionFields::secret_only(secret, total),
				1 => RecipientOnionFields::secret_only(secret, total + 1),
				2 => RecipientOnionFields::secret_only(other_secret, total),
				_ => {
					let mut f = RecipientOnionFields::secret_only(secret, total);
					f.payment_metadata = Some(vec![7]);
					f
				},
			};
			if *mismatch == 0 && *ticks_between == 0 && *blocks_between == 0 {
				// one send call with both paths: the genuine MPP shape
				w.send_mpp(0, 1, &parts, hash, f1, PaymentId(hash.0), 60);
			} else {
				// two separate sends so that something can happen in between / fields can differ
				let mut id2 = hash.0;
				id2[0] ^= 1;
				w.send_raw(0, &[(1, parts[0].0)], parts[0].1, hash, f1, PaymentId(hash.0), 60);
				w.run_to_quiescence(400);
				for _ in 0..*ticks_between {
					w.nodes[1].cm.timer_tick_occurred();
					w.pump();
					w.run_to_quiescence(400);
				}
				mine_and_sync(&mut w, *blocks_between);
				w.send_raw(0, &[(1, parts[1].0)], parts[1].1, hash, f2, PaymentId(id2), 60);
			}
			w.run_to_quiescence(600);
			if pol == ClaimPolicy::Hold {
				// nothing further
			}
			for _ in 0..3 {
				w.nodes[1].cm.timer_tick_occurred();
				w.pump();
				w.run_to_quiescence(400);
			}
			let s = seen(&w, &hash);
			no_error(&w, &hash)?;
			// all-or-nothing on the wire
			if s.fulfills > 0 && s.fails > 0 {
				return Err(viol("all-or-nothing", format!("{} parts fulfilled and {} parts failed", s.fulfills, s.fails)));
			}
			let complete = *mismatch == 0 && *ticks_between == 0;
			if !s.claimable.is_empty() {
				if *mismatch != 0 {
					return Err(viol("mismatching-parts-shown", format!("parts with differing onion fields (kind {}) were shown as claimable", mismatch)));
				}
				if s.claimable[0].0 != total {
					return Err(viol("claimable-amount", format!("PaymentClaimable for {} msat, parts sum to {}", s.claimable[0].0, total)));
				}
			}
			if complete && *blocks_between < 5 {
				if s.claimable.len() != 1 {
					return Err(viol("complete-mpp-not-shown", format!("both parts arrived with agreeing fields: PaymentClaimable x{}", s.claimable.len())));
				}
				match pol {
					ClaimPolicy::Claim => {
						if s.claimed != vec![total] || s.fulfills != 2 {
							return Err(viol("mpp-claim", format!("claim_funds: PaymentClaimed {:?} fulfils x{}", s.claimed, s.fulfills)));
						}
					},
					ClaimPolicy::Fail => {
						if s.fails != 2 || !s.claimed.is_empty() {
							return Err(viol("mpp-fail", format!("fail_htlc_backwards: fails x{}", s.fails)));
						}
					},
					ClaimPolicy::Hold => {},
				}
			}
			if *ticks_between > 0 && !s.claimable.is_empty() {
				return Err(viol("timed-out-part-counted", "a part that had already timed out was counted towards a complete set".into()));
			}
			Ok(CaseResult {
				label: format!("{}{}f{}x{}", if s.claimable.is_empty() { "none" } else { "shown" }, s.claimed.len(), s.fulfills, s.fails),
				claimable_shown: !s.claimable.is_empty(),
			})
		},
		Case::MppDeadline { d_first, d_second, rel } => {
			let total = m;
			let secret = register(&mut w, hash, Some(m), 7200);
			add_payment(&mut w, pre, hash, secret, total, ClaimPolicy::Hold, true);
			let mut id2 = hash.0;
			id2[0] ^= 1;
			w.send_raw(0, &[(1, chans[0])], 20_000_000, hash, RecipientOnionFields::secret_only(secret, total), PaymentId(hash.0), *d_first);
			w.run_to_quiescence(400);
			w.send_raw(0, &[(1, chans[1])], total - 20_000_000, hash, RecipientOnionFields::secret_only(secret, total), PaymentId(id2), *d_second);
			w.run_to_quiescence(600);
			let s0 = seen(&w, &hash);
			if s0.claimable.len() != 1 || s0.adds.len() != 2 {
				return Err(viol("harness", format!("two-part payment not claimable: {:?} adds {:?}", s0.claimable, s0.adds)));
			}
			let min_expiry = s0.adds.iter().map(|a| a.1).min().unwrap();
			let deadline = s0.claimable[0].1.unwrap_or(0);
			// the advertised deadline must be one the node itself honours: it fails a part back from
			// (that part's expiry - HTLC_FAIL_BACK_BUFFER) on
			if deadline > min_expiry - HTLC_FAIL_BACK_BUFFER {
				return Err(viol("claim-deadline", format!("claim_deadline {} advertised for parts expiring at {:?} (the earliest part is failed back from height {})", deadline, s0.adds.iter().map(|a| a.1).collect::<Vec<_>>(), min_expiry - HTLC_FAIL_BACK_BUFFER)));
			}
			let h0 = best_height(&w);
			let target = (deadline as i64 + *rel as i64) as u32;
			if target > h0 {
				mine_and_sync(&mut w, target - h0);
			}
			let h = best_height(&w);
			let before = seen(&w, &hash);
			w.nodes[1].cm.claim_funds(pre);
			w.payments[0].claimed_by_recipient = true;
			w.pump();
			w.run_to_quiescence(600);
			let s = seen(&w, &hash);
			if s.fulfills > 0 && s.fails > 0 {
				return Err(viol("all-or-nothing", format!("{} parts fulfilled and {} parts failed", s.fulfills, s.fails)));
			}
			if h < deadline {
				if before.fails > 0 {
					return Err(viol("failed-before-deadline", format!("node failed {} part(s) back at height {} < claim_deadline {}", before.fails, h, deadline)));
				}
				if s.claimed != vec![total] || s.fulfills != 2 {
					return Err(viol("claim-before-deadline", format!("claim_funds at height {} < claim_deadline {}: PaymentClaimed {:?} fulfils x{}", h, deadline, s.claimed, s.fulfills)));
				}
				no_error(&w, &hash)?;
			} else {
				// the earliest part is gone; the payment can no longer be claimed (not even partially), and the
				// remaining part follows (its own expiry, or the MPP timeout)
				if before.fails == 0 && h >= min_expiry - HTLC_FAIL_BACK_BUFFER {
					return Err(viol("not-failed-at-deadline", format!("at height {} >= claim_deadline {} the node had not failed any part back", h, deadline)));
				}
				if s.fulfills > 0 || !s.claimed.is_empty() {
					return Err(viol("all-or-nothing", format!("claim_funds at height {} >= claim_deadline {} fulfilled {} part(s) (PaymentClaimed {:?}) of a payment of which {} part(s) had been failed back", h, deadline, s.fulfills, s.claimed, before.fails)));
				}
				for _ in 0..3 {
					w.nodes[1].cm.timer_tick_occurred();
					w.pump();
					w.run_to_quiescence(400);
				}
				mine_and_sync(&mut w, 14);
				w.run_to_quiescence(400);
				let end = seen(&w, &hash);
				if end.fails != 2 || end.fulfills != 0 {
					return Err(viol("all-or-nothing", format!("after the deadline: {} of 2 parts failed back, {} fulfilled", end.fails, end.fulfills)));
				}
			}
			Ok(CaseResult { label: format!("mpp-deadline {}", if h < deadline { "claimed" } else { "expired" }), claimable_shown: true })
		},
		Case::MppFields { first, f1, f2 } => {
			use lightning::ln::outbound_payment::RecipientCustomTlvs;
			let total = m;
			let secret = register(&mut w, hash, Some(m), 7200);
			add_payment(&mut w, pre, hash, secret, total, ClaimPolicy::Hold, true);
			let parts = [(chans[*first], 20_000_000u64), (chans[1 - *first], total - 20_000_000)];
			let menu = |k: u8| -> (Option<Vec<u8>>, Vec<(u64, Vec<u8>)>) {
				match k {
					0 => (None, vec![]),
					1 => (None, vec![(65537, vec![1]), (65539, vec![9])]),
					2 => (None, vec![(65537, vec![1])]),
					3 => (None, vec![(65536, vec![2])]),
					4 => (None, vec![(65536, vec![2]), (65537, vec![1])]),
					5 => (None, vec![(65536, vec![3])]),
					_ => (None, vec![(65539, vec![9])]),
				}
			};
			let mk = |k: u8| {
				let (md, tlvs) = menu(k);
				let mut f = RecipientOnionFields::secret_only(secret, total).with_custom_tlvs(RecipientCustomTlvs::new(tlvs).unwrap());
				f.payment_metadata = md;
				f
			};
			let mut id2 = hash.0;
			id2[0] ^= 1;
			w.send_raw(0, &[(1, parts[0].0)], parts[0].1, hash, mk(*f1), PaymentId(hash.0), 60);
			w.run_to_quiescence(400);
			w.send_raw(0, &[(1, parts[1].0)], parts[1].1, hash, mk(*f2), PaymentId(id2), 60);
			w.run_to_quiescence(600);
			let shown: Vec<(u64, Option<Vec<u8>>, Vec<(u64, Vec<u8>)>)> = w
				.obs
				.iter()
				.filter_map(|o| match o {
					Obs::Event { node: 1, ev: Event::PaymentClaimable { payment_hash, amount_msat, onion_fields, .. } } if *payment_hash == hash => {
						let of = onion_fields.clone();
						Some((*amount_msat, of.as_ref().and_then(|f| f.payment_metadata.clone()), of.map(|f| f.custom_tlvs().clone()).unwrap_or_default()))
					},
					_ => None,
				})
				.collect();
			for _ in 0..3 {
				w.nodes[1].cm.timer_tick_occurred();
				w.pump();
				w.run_to_quiescence(400);
			}
			let s = seen(&w, &hash);
			no_error(&w, &hash)?;
			let ((md1, t1), (md2, t2)) = (menu(*f1), menu(*f2));
			let even = |t: &Vec<(u64, Vec<u8>)>| t.iter().filter(|x| x.0 % 2 == 0).cloned().collect::<Vec<_>>();
			// fields a recipient must understand (metadata, even TLVs) have to agree; odd TLVs may differ, but
			// only those carried by every part may be reported (nothing that depends on the arrival order)
			let agree = md1 == md2 && even(&t1) == even(&t2);
			if !agree {
				if !shown.is_empty() {
					return Err(viol("mismatching-parts-shown", format!("parts with onion fields ({:?},{:?}) and ({:?},{:?}) were shown as claimable: {:?}", md1, t1, md2, t2, shown)));
				}
				if s.fulfills != 0 {
					return Err(viol("mismatching-parts-shown", "parts with differing onion fields were fulfilled".into()));
				}
				return Ok(CaseResult { label: format!("fields-differ none f{}x{}", s.fulfills, s.fails), claimable_shown: false });
			}
			if shown.len() != 1 || shown[0].0 != total {
				return Err(viol("complete-mpp-not-shown", format!("both parts arrived with agreeing required fields ({:?},{:?}) / ({:?},{:?}): PaymentClaimable {:?}", md1, t1, md2, t2, shown)));
			}
			let common: Vec<(u64, Vec<u8>)> = t1.iter().filter(|x| t2.contains(x)).cloned().collect();
			if shown[0].1 != md1 || shown[0].2 != common {
				return Err(viol(
					"claimable-onion-fields",
					format!("PaymentClaimable reports metadata {:?} custom TLVs {:?}; the parts carried ({:?},{:?}) and ({:?},{:?}), common to both: {:?}", shown[0].1, shown[0].2, md1, t1, md2, t2, common),
				));
			}
			Ok(CaseResult { label: format!("fields-agree shown tlvs={}", common.len()), claimable_shown: true })
		},
		Case::Skimmed { skim_msat, ticks } => {
			// A - B(LSP, intercepts) - C(accepts underpaying HTLCs)
			let mut cb = user_config(Ct::Static);
			cb.htlc_interception_flags = 1; // ToInterceptSCIDs
			let mut cc = user_config(Ct::Static);
			cc.channel_config.accept_underpaying_htlcs = true;
			let mut w = World::new(vec![user_config(Ct::Static), cb, cc], 253);
			let c0 = w.open_channel(0, 1, 1_000_000, 100_000_000);
			let c1 = w.open_channel(1, 2, 1_000_000, 100_000_000);
			w.obs_cursor = w.obs.len();
			w.intercept_skim_msat = Some(*skim_msat);
			let secret = w.nodes[2].cm.create_inbound_payment_for_hash(hash, Some(m), 7200, None, None).expect("register").0;
			w.payments.push(PaymentRec {
				id: PaymentId(hash.0),
				hash,
				preimage: pre,
				secret,
				from: 0,
				to: 2,
				amount_msat: m,
				policy: ClaimPolicy::Hold,
				send_ok: true,
				send_err: String::new(),
				claimed_by_recipient: false,
				failed_by_recipient: false,
			});
			use lightning::routing::router::{Path, PaymentParameters, Route, RouteHop, RouteParameters};
			let ch0 = w.chan(0, &c0).unwrap();
			let _ = c1;
			let iscid = w.nodes[1].cm.get_intercept_scid();
			let route = Route {
				paths: vec![Path {
					hops: vec![
						RouteHop {
							pubkey: w.nodes[1].id,
							node_features: w.nodes[1].cm.node_features(),
							short_channel_id: ch0.short_channel_id.unwrap(),
							channel_features: w.nodes[1].cm.channel_features(),
							fee_msat: 1000,
							cltv_expiry_delta: 100,
							maybe_announced_channel: true,
						},
						RouteHop {
							pubkey: w.nodes[2].id,
							node_features: w.nodes[2].cm.node_features(),
							short_channel_id: iscid,
							channel_features: w.nodes[2].cm.channel_features(),
							fee_msat: m,
							cltv_expiry_delta: 60,
							maybe_announced_channel: false,
						},
					],
					blinded_tail: None,
				}],
				route_params: RouteParameters::from_payment_params_and_value(PaymentParameters::from_node_id(w.nodes[2].id, 60), m),
			};
			let r = w.nodes[0].cm.send_payment_with_route(route, hash, RecipientOnionFields::secret_only(secret, m), PaymentId(hash.0));
			if r.is_err() {
				return Err(viol("harness", format!("skimmed send refused: {:?}", r)));
			}
			w.pump();
			w.run_to_quiescence(600);
			let claimable: Vec<(u64, u64, Option<u32>)> = w
				.obs
				.iter()
				.filter_map(|o| match o {
					Obs::Event { node: 2, ev: Event::PaymentClaimable { payment_hash, amount_msat, counterparty_skimmed_fee_msat, claim_deadline, .. } } if *payment_hash == hash => {
						Some((*amount_msat, *counterparty_skimmed_fee_msat, *claim_deadline))
					},
					_ => None,
				})
				.collect();
			if claimable.len() != 1 {
				return Err(viol("harness", format!("skimmed payment not shown claimable: {:?}", claimable)));
			}
			if claimable[0].0 + claimable[0].1 != m || claimable[0].1 != *skim_msat {
				return Err(viol("claimable-amount", format!("PaymentClaimable amount {} + skimmed {} for {} msat intended", claimable[0].0, claimable[0].1, m)));
			}
			let deadline = claimable[0].2.unwrap_or(0);
			for _ in 0..*ticks {
				w.nodes[2].cm.timer_tick_occurred();
				w.pump();
				w.run_to_quiescence(600);
			}
			let h = w.nodes[2].cm.current_best_block().height;
			let failed_before = w.obs.iter().any(|o| matches!(o, Obs::Sent { from: 2, wire: Wire::Fail(_), .. }));
			if h < deadline && failed_before {
				return Err(viol(
					"failed-before-deadline",
					format!("a complete, already claimable payment was failed back after {} timer tick(s) at height {} < claim_deadline {}", ticks, h, deadline),
				));
			}
			w.nodes[2].cm.claim_funds(pre);
			w.payments[0].claimed_by_recipient = true;
			w.pump();
			w.run_to_quiescence(600);
			let claimed: Vec<u64> = w
				.obs
				.iter()
				.filter_map(|o| match o {
					Obs::Event { node: 2, ev: Event::PaymentClaimed { payment_hash, amount_msat, .. } } if *payment_hash == hash => Some(*amount_msat),
					_ => None,
				})
				.collect();
			let sent = w.obs.iter().filter(|o| matches!(o, Obs::Event { node: 0, ev: Event::PaymentSent { payment_hash, .. } } if *payment_hash == hash)).count();
			if claimed != vec![m - *skim_msat] || sent != 1 {
				return Err(viol(
					"claim-before-deadline",
					format!("claim_funds after {} tick(s) at height {} < claim_deadline {}: PaymentClaimed {:?} PaymentSent x{}", ticks, h, deadline, claimed, sent),
				));
			}
			Ok(CaseResult { label: "claimed".into(), claimable_shown: true })
		},
		Case::Keysend { with_secret } => {
			// spontaneous payment: B never registered anything; the preimage travels in the onion
			let fields = if *with_secret {
				RecipientOnionFields::secret_only(PaymentSecret([9; 32]), m)
			} else {
				RecipientOnionFields::spontaneous_empty(m)
			};
			let bid = w.nodes[1].id;
			let ch = w.chan(0, &chans[0]).unwrap();
			use lightning::routing::router::{Path, PaymentParameters, Route, RouteHop, RouteParameters};
			let route = Route {
				paths: vec![Path {
					hops: vec![RouteHop {
						pubkey: bid,
						node_features: w.nodes[1].cm.node_features(),
						short_channel_id: ch.short_channel_id.unwrap(),
						channel_features: w.nodes[1].cm.channel_features(),
						fee_msat: m,
						cltv_expiry_delta: 60,
						maybe_announced_channel: true,
					}],
					blinded_tail: None,
				}],
				route_params: RouteParameters::from_payment_params_and_value(PaymentParameters::for_keysend(bid, 60, false), m),
			};
			let r = w.nodes[0].cm.send_spontaneous_payment(Some(pre), fields, PaymentId(hash.0), route.route_params.clone(), lightning::ln::outbound_payment::Retry::Attempts(0));
			let _ = route;
			if r.is_err() {
				// no router in the closed world: spontaneous sends need one; not applicable
				return Ok(CaseResult { label: "n/a-no-router".into(), claimable_shown: false });
			}
			w.pump();
			w.run_to_quiescence(400);
			Ok(CaseResult { label: "sent".into(), claimable_shown: false })
		},
	}
}

pub fn cases(tier: Tier) -> Vec<Case> {
	let th = tier.is_thorough();
	let mut v = vec![Case::Secret { flip: None }];
	for b in 0..256u16 {
		v.push(Case::Secret { flip: Some(b) });
	}
	if th {
		for a in 0..256u16 {
			for b in (a + 1)..256u16 {
				v.push(Case::Secret2 { a, b });
			}
		}
	}
	v.push(Case::SecretOfOtherHash);
	v.push(Case::SecretOfLargerAmount);
	let expired: Vec<u32> = if th { (0..=24).collect() } else { vec![0, 11, 12, 13, 14, 20] };
	for blocks in expired.iter().copied() {
		v.push(Case::Expired { blocks });
	}
	// the same with a custom minimum final CLTV delta stored next to the expiry (several byte patterns)
	for delta in if th { vec![43u16, 120, 144, 255, 256, 257, 512, 900] } else { vec![120u16, 144, 256] } {
		for blocks in if th { expired.clone() } else { vec![0, 12, 13, 14, 20] } {
			v.push(Case::ExpiredCustomCltv { blocks, delta });
		}
	}
	let (ds, ss): (Vec<i64>, Vec<i64>) = if th { (vec![-50_000, -1000, -2, -1, 0, 1, 2, 1000, 50_000_000], vec![-1000, -2, -1, 0, 1, 2, 1000]) } else { (vec![-1000, -1, 0, 1, 50_000_000], vec![-1, 0, 1]) };
	for d in ds {
		for s in ss.iter().copied() {
			v.push(Case::Amount { declared_minus_min: d, sent_minus_declared: s });
		}
	}
	let cltvs: Vec<u32> = if th { (0..=(MIN_FINAL_CLTV_EXPIRY_DELTA + 40)).collect() } else { ((HTLC_FAIL_BACK_BUFFER - 4)..=(MIN_FINAL_CLTV_EXPIRY_DELTA + 4)).collect() };
	for delta in cltvs {
		v.push(Case::Cltv { delta });
	}
	// claim height sweep around the deadline (delta 60 → window of ~21 blocks)
	let sweep: Vec<u32> = if th { (0..=45).collect() } else { vec![0, 1, 10, 18, 19, 20, 21, 22, 23] };
	for delta in if th { vec![43u32, 46, 50, 60, 80] } else { vec![60u32] } {
		for b in sweep.iter() {
			v.push(Case::ClaimAt { delta, blocks: *b });
		}
	}
	for b in [0u32, 5, 19] {
		v.push(Case::FailAt { blocks: b });
	}
	for skim in [1u64, 1000, 1_000_000] {
		for ticks in [0u32, 1, 2, 4] {
			v.push(Case::Skimmed { skim_msat: skim, ticks });
		}
	}
	for (d_first, d_second) in [(60u32, 60u32), (60, 64), (64, 60), (72, 60), (60, 72)] {
		for rel in if th { (-3i32..=2).collect::<Vec<_>>() } else { vec![-1i32, 0] } {
			v.push(Case::MppDeadline { d_first, d_second, rel });
		}
	}
	for first in [0usize, 1] {
		for f1 in 0u8..=6 {
			for f2 in 0u8..=6 {
				v.push(Case::MppFields { first, f1, f2 });
			}
		}
	}
	for first in [0usize, 1] {
		for split in if th { vec![1u64, 1_000_000, 25_000_000, 49_999_999] } else { vec![1_000_000u64, 25_000_000] } {
			for policy in [0u8, 1, 2] {
				v.push(Case::Mpp { first, split, ticks_between: 0, blocks_between: 0, mismatch: 0, policy });
			}
			for mismatch in [1u8, 2, 3] {
				v.push(Case::Mpp { first, split, ticks_between: 0, blocks_between: 0, mismatch, policy: 0 });
			}
			v.push(Case::Mpp { first, split, ticks_between: 1, blocks_between: 0, mismatch: 0, policy: 0 });
			v.push(Case::Mpp { first, split, ticks_between: 0, blocks_between: 3, mismatch: 0, policy: 0 });
			if th {
				v.push(Case::Mpp { first, split, ticks_between: 2, blocks_between: 2, mismatch: 0, policy: 1 });
			}
		}
	}
	v
}

pub fn run(args: &Args) -> i32 {
	let tier = args.tier;
	let mut ev = Evidence::new("C04", tier, args.seed, Level::Exploration);
	let cs = cases(tier);
	let results = par::map(&cs, args.threads, |_, c| run_case(c));
	let mut violations = Vec::new();
	let mut outcomes: BTreeMap<String, u64> = BTreeMap::new();
	let mut shown = 0u64;
	let mut rejected = 0u64;
	for (c, r) in cs.iter().zip(results.into_iter()) {
		let kind = format!("{:?}", c).split(|ch: char| !ch.is_alphanumeric()).next().unwrap_or("").to_string();
		match r {
			Ok(Ok(res)) => {
				*outcomes.entry(format!("{}:{}", kind, res.label)).or_insert(0) += 1;
				if res.claimable_shown {
					shown += 1;
				} else {
					rejected += 1;
				}
			},
			Ok(Err((oracle, detail))) => {
				if oracle == "harness" {
					mc_common::cli::die(&format!("harness problem in case {:?}: {}", c, detail));
				}
				violations.push(Violation {
					property: "C04".into(),
					oracle: oracle.clone(),
					identity: format!("{}|{:?}", oracle, c),
					detail: format!("{:?}: {}", c, detail),
					replay: json!({"case": format!("{:?}", c)}),
				});
			},
			Err(p) => violations.push(Violation {
				property: "C04".into(),
				oracle: "no-panic".into(),
				identity: format!("no-panic|{:?}", c),
				detail: format!("{:?}: panic {}", c, p),
				replay: json!({"case": format!("{:?}", c)}),
			}),
		}
	}
	ev.set("evaluations", cs.len() as u64);
	ev.set("distinct_nontrivial", shown + rejected);
	ev.set("claimable_shown_cases", shown);
	ev.set("rejected_cases", rejected);
	ev.set("rule", "one evaluation = one payment attempt (or two-part MPP attempt) on a fresh real two-node world with two parallel channels, driven to quiescence; cases enumerate all 256 single-bit flips of the payment secret, foreign / larger-amount / expired secrets, the declared-total x delivered-amount grid around the registered minimum, every final CLTV delta around the acceptance boundary, the claim-height sweep around the advertised claim_deadline, explicit fail, and two-part MPP over both channel orders with ticks/blocks in between and each kind of field mismatch; non-trivial = the case ran to a judged outcome (shown or rejected)");
	ev.set("exhaustive", true);
	ev.set("outcomes", json!(outcomes));
	for c in cs.iter().step_by((cs.len() / 6).max(1)) {
		ev.sample(json!(format!("{:?}", c)), 8);
	}
	if shown == 0 || rejected == 0 {
		mc_common::cli::die("vacuity guard: need both shown and rejected cases");
	}
	ev.assume("_test_utils build: MPP_TIMEOUT_TICKS = 1 (3 in production)");
	ev.assume("HTLC_FAIL_BACK_BUFFER = 39 and MIN_FINAL_CLTV_EXPIRY_DELTA = 42 transcribed from the library's documented constants");
	ev.assume("in the band where the expiry leaves a non-empty claim window but less than the advertised minimum delta, either answer satisfies the property");
	mc_common::findings::conclude("C04", &violations, &mut ev)
}

/// Re-runs one case named by its Debug form (as written in a violation's replay file).
pub fn replay_case(case: &str) -> i32 {
	for tier in [Tier::Quick, Tier::Thorough] {
		if let Some(c) = cases(tier).into_iter().find(|c| format!("{:?}", c) == case) {
			let r = par::guarded(|| run_case(&c));
			return match r {
				Ok(Ok(o)) => {
					println!("case {:?}: held ({})", c, o.label);
					0
				},
				Ok(Err((oracle, detail))) => {
					println!("case {:?}: {} {}", c, oracle, detail);
					1
				},
				Err(p) => {
					println!("case {:?}: panic {}", c, p);
					1
				},
			};
		}
	}
	mc_common::cli::die("unknown case in replay file")
}
