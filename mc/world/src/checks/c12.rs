//! C12 – persisted objects survive serialization unchanged.
use crate::checks::c01::Ct;
use crate::checks::{c01, c02, c09, c10};
use crate::runner::{fill_model_checking_evidence, run_scenarios, Scenario};
use crate::serde_oracle::{read_monitor, reencode_manager, SerdeOracle};
use crate::sys::WorldSys;
use crate::world::World;
use lightning::chain::channelmonitor::ChannelMonitorUpdate;
use lightning::util::ser::{Readable, Writeable};
use mc_common::cli::{Args, Tier};
use mc_common::evidence::{Evidence, Level};
use mc_common::explore::Config;
use mc_common::findings::Violation;
use mc_common::json;
use std::sync::{Arc, Mutex};
use std::time::Duration;

type Corpus = Arc<Mutex<Vec<(String, Vec<u8>)>>>;

fn with_serde(mut sys: WorldSys, corpus: &Corpus, every: usize) -> WorldSys {
	let mut so = SerdeOracle::new(corpus.clone());
	so.manager_every = every;
	sys.oracles.push(Box::new(so));
	sys
}

pub fn scenarios(tier: Tier, corpus: &Corpus) -> Vec<Scenario> {
	let th = tier.is_thorough();
	let mut v: Vec<Scenario> = Vec::new();
	let every = 1;
	// channel states (non-quiescent ones included): C01 interleavings
	for s in c01::scenarios(tier).into_iter().filter(|s| {
		// (the shutdown-with-disconnection scenarios carry a recorded C01 finding and add no new object states)
		!s.name.contains("shutdown-disconnect")
			&& (s.name.contains("cross-claim") || s.name.contains("2+1-fee") || s.name.contains("disconnect") || s.name.contains("shutdown"))
			&& (th || !s.name.starts_with("ZeroFee"))
	}) {
		let mut s = s.clone();
		if !th {
			s.k = 1;
		}
		let c = corpus.clone();
		let name = format!("c01/{}", s.name);
		v.push(Scenario {
			name: name.clone(),
			cfg: Config { max_deviations: s.k, horizon: 600, ..Config::default() },
			factory: Box::new(move || with_serde(c01::build(&s), &c, every)),
			desc: json!({"name": name}),
		});
	}
	// forwarding states incl. async persistence (updates blocked / in flight)
	for s in c02::scenarios(tier, "C02").into_iter().filter(|s| s.name.contains("reorder") || s.name.contains("async") || s.name.contains("two-forwards")) {
		let mut s = s.clone();
		if !th && (s.name.contains("reorder") || s.name.contains("cross-async")) {
			s.k = 1;
		}
		if !th && s.name.contains("claim-async") {
			continue; // 1815 executions; thorough only
		}
		let c = corpus.clone();
		let name = format!("c02/{}", s.name);
		v.push(Scenario {
			name: name.clone(),
			cfg: Config { max_deviations: s.k, horizon: 1500, ..Config::default() },
			factory: Box::new(move || with_serde(c02::build(&s, "C02"), &c, every)),
			desc: json!({"name": name}),
		});
	}
	for s in c09::scenarios(tier).into_iter().filter(|s| (s.name.contains("ab-claim") || s.name.contains("async-open")) && (th || !s.name.contains("deferred"))) {
		let c = corpus.clone();
		let name = format!("c09/{}", s.name);
		let k = s.k;
		v.push(Scenario {
			name: name.clone(),
			cfg: Config { max_deviations: k, horizon: 800, ..Config::default() },
			factory: Box::new(move || with_serde(c09::build(&s), &c, every)),
			desc: json!({"name": name}),
		});
	}
	// behavioural equivalence: the node is rebuilt from its serialised manager + monitors at every
	// point of the flow and must carry the flow to the same correct end (C10's oracles)
	let mut c10s = c10::scenarios(tier);
	// (the skimmed-payment scenario first: on a loaded machine the wall cap must not cut the only scenario with skimmed claimable payments)
	c10s.sort_by_key(|s| if s.name.contains("fork-intercept") { 0 } else { 1 });
	for s in c10s.into_iter().filter(|s| !s.name.contains("lagging-manager") && (th || !s.name.contains("deferred")) && (th || s.name.contains("abc-claim") || s.name.contains("ab-fail") || s.name.contains("fork-intercept"))) {
		let c = corpus.clone();
		let name = format!("c10/{}", s.name);
		let k = s.k;
		v.push(Scenario {
			name: name.clone(),
			cfg: Config { max_deviations: k, horizon: 1200, ..Config::default() },
			factory: Box::new(move || with_serde(c10::build(&s), &c, 4)),
			desc: json!({"name": name}),
		});
	}
	v
}

// ---- encoding probes -----------------------------------------------------------------------------
fn read_bigsize(b: &[u8], pos: &mut usize) -> Option<u64> {
	let f = *b.get(*pos)?;
	*pos += 1;
	match f {
		0xff => {
			let v = u64::from_be_bytes(b.get(*pos..*pos + 8)?.try_into().ok()?);
			*pos += 8;
			if v < 0x1_0000_0000 {
				return None;
			}
			Some(v)
		},
		0xfe => {
			let v = u32::from_be_bytes(b.get(*pos..*pos + 4)?.try_into().ok()?) as u64;
			*pos += 4;
			if v < 0x1_0000 {
				return None;
			}
			Some(v)
		},
		0xfd => {
			let v = u16::from_be_bytes(b.get(*pos..*pos + 2)?.try_into().ok()?) as u64;
			*pos += 2;
			if v < 0xfd {
				return None;
			}
			Some(v)
		},
		x => Some(x as u64),
	}
}
fn write_bigsize(v: u64, out: &mut Vec<u8>) {
	if v < 0xfd {
		out.push(v as u8);
	} else if v < 0x1_0000 {
		out.push(0xfd);
		out.extend_from_slice(&(v as u16).to_be_bytes());
	} else if v < 0x1_0000_0000 {
		out.push(0xfe);
		out.extend_from_slice(&(v as u32).to_be_bytes());
	} else {
		out.push(0xff);
		out.extend_from_slice(&v.to_be_bytes());
	}
}

/// Parses `b[off..]` as `BigSize(len) || records` occupying exactly the rest; returns the record types.
fn parse_stream(b: &[u8], off: usize) -> Option<(usize, Vec<u64>)> {
	let mut pos = off;
	let len = read_bigsize(b, &mut pos)? as usize;
	if pos + len != b.len() {
		return None;
	}
	let body_start = pos;
	let mut types = Vec::new();
	while pos < b.len() {
		let t = read_bigsize(b, &mut pos)?;
		if let Some(last) = types.last() {
			if t <= *last {
				return None;
			}
		}
		let l = read_bigsize(b, &mut pos)? as usize;
		if pos + l > b.len() {
			return None;
		}
		pos += l;
		types.push(t);
	}
	Some((body_start, types))
}

/// Locates the trailing TLV stream (longest suffix that is a well-formed stream with >= 1 record).
fn locate_trailing_stream(b: &[u8]) -> Option<(usize, usize, Vec<u64>)> {
	for off in 2..b.len() {
		if let Some((body, types)) = parse_stream(b, off) {
			if !types.is_empty() {
				return Some((off, body, types));
			}
		}
	}
	None
}

/// Returns the object with an unknown record of type `t` (value one byte) appended to the trailing stream.
fn with_extra_record(b: &[u8], off: usize, body: usize, t: u64) -> Vec<u8> {
	let mut rec = Vec::new();
	write_bigsize(t, &mut rec);
	rec.push(1);
	rec.push(0x2a);
	let old_len = b.len() - body;
	let mut out = b[..off].to_vec();
	write_bigsize((old_len + rec.len()) as u64, &mut out);
	out.extend_from_slice(&b[body..]);
	out.extend_from_slice(&rec);
	out
}

enum Decoded {
	Ok(Vec<u8>),
	Err(String),
}

fn decode(kind: &str, w: &World, bytes: &[u8]) -> Decoded {
	match kind {
		"monitor" => match read_monitor(w, 0, bytes) {
			Ok(m) => Decoded::Ok(m.encode()),
			Err(e) => Decoded::Err(e),
		},
		"update" => match <ChannelMonitorUpdate as Readable>::read(&mut &bytes[..]) {
			Ok(u) => Decoded::Ok(u.encode()),
			Err(e) => Decoded::Err(format!("{:?}", e)),
		},
		_ => match reencode_manager(w, 0, bytes) {
			Ok(b) => Decoded::Ok(b),
			Err(e) => Decoded::Err(e),
		},
	}
}

type ProbeOut = (String, bool, u64, (u64, u64, u64), Vec<(String, String)>);

fn probe_one(kind: &String, bytes: &Vec<u8>) -> ProbeOut {
	// monitors/managers were written by node A of a two- or three-node line world with the same seeds
	let (w, _c) = crate::checks::c09::line_world(Ct::Static, 2, &[]);
	let mut truncs = 0u64;
	let mut problems: Vec<(String, String)> = Vec::new();
	// the object itself must decode and re-encode identically (it came from node 0..2; keys of node 0 only fit node-0 objects)
	let base = decode(kind, &w, bytes);
	let decodable = matches!(base, Decoded::Ok(_));
	if decodable {
		for cut in 0..bytes.len() {
			truncs += 1;
			if let Decoded::Ok(_) = decode(kind, &w, &bytes[..cut]) {
				problems.push(("truncation-accepted".into(), format!("{} of {} bytes truncated to {} decoded successfully", kind, bytes.len(), cut)));
				break;
			}
		}
	}
	let mut tlv = (0u64, 0u64, 0u64);
	if decodable {
		match locate_trailing_stream(bytes) {
			Some((off, body, types)) => {
				// far above every type the library knows, so the record is genuinely unknown
				let maxt = (*types.last().unwrap()).max(1_000_000);
				let odd = if maxt % 2 == 0 { maxt + 1 } else { maxt + 2 };
				let even = odd + 1;
				match decode(kind, &w, &with_extra_record(bytes, off, body, odd)) {
					Decoded::Ok(re) => {
						// equal object: its canonical re-encoding equals the re-encoding of the untouched object
						let base_re = match &base {
							Decoded::Ok(b) => b.clone(),
							_ => Vec::new(),
						};
						if re != base_re {
							problems.push(("odd-tlv-changes-object".into(), format!("{}: unknown odd TLV {} in the trailing stream changed the decoded object", kind, odd)));
						}
						tlv.0 += 1;
					},
					Decoded::Err(e) => problems.push(("odd-tlv-rejected".into(), format!("{}: unknown odd TLV {} rejected: {}", kind, odd, e))),
				}
				match decode(kind, &w, &with_extra_record(bytes, off, body, even)) {
					Decoded::Ok(_) => problems.push(("even-tlv-accepted".into(), format!("{}: unknown even TLV {} accepted", kind, even))),
					Decoded::Err(_) => tlv.1 += 1,
				}
			},
			None => tlv.2 += 1,
		}
	}
	(kind.clone(), decodable, truncs, tlv, problems)
}

pub fn run(args: &Args) -> i32 {
	let tier = args.tier;
	crate::persist::KEEP_ALL.store(true, std::sync::atomic::Ordering::Relaxed);
	let cap = Duration::from_secs(if args.wall_cap_s > 0 {
		args.wall_cap_s
	} else if tier.is_thorough() {
		2400
	} else {
		45
	});
	let corpus: Corpus = Arc::new(Mutex::new(Vec::new()));
	let mut ev = Evidence::new("C12", tier, args.seed, Level::ModelChecking);
	let scns: Vec<Scenario> =
		scenarios(tier, &corpus).into_iter().filter(|s| args.opt("only").map(|o| s.name.contains(o)).unwrap_or(true)).collect();
	let mut r = run_scenarios("C12", args, scns, cap);
	fill_model_checking_evidence(&mut ev, &r);

	// encoding probes on the collected corpus, against a throw-away world that provides the keys
	let objs: Vec<(String, Vec<u8>)> = corpus.lock().unwrap().clone();
	let limit = |k: &str| match (k, tier.is_thorough()) {
		("manager", false) => 2,
		("manager", true) => 8,
		("monitor", false) => 6,
		("monitor", true) => 30,
		(_, false) => 40,
		(_, true) => 200,
	};
	let mut picked: Vec<(String, Vec<u8>)> = Vec::new();
	for k in ["update", "monitor", "manager"] {
		let all: Vec<&(String, Vec<u8>)> = objs.iter().filter(|o| o.0 == k).collect();
		let n = limit(k).min(all.len());
		for i in 0..n {
			// spread over the corpus
			picked.push(all[i * all.len() / n.max(1)].clone());
		}
	}
	let probe = mc_common::par::map(&picked, args.threads, |_, (kind, bytes)| probe_one(kind, bytes));
	let mut truncs = 0u64;
	let (mut odd_ok, mut even_rej, mut not_probed, mut undecodable) = (0u64, 0u64, 0u64, 0u64);
	for (i, p) in probe.into_iter().enumerate() {
		match p {
			Ok((kind, decodable, t, tlv, problems)) => {
				truncs += t;
				odd_ok += tlv.0;
				even_rej += tlv.1;
				not_probed += tlv.2;
				if !decodable {
					undecodable += 1;
				}
				for (oracle, detail) in problems {
					r.violations.push(Violation {
						property: "C12".into(),
						oracle: oracle.clone(),
						identity: format!("{}|{}", oracle, kind),
						detail,
						replay: json!({"kind": kind, "bytes": mc_common::hex(&picked[i].1)}),
					});
				}
			},
			Err(pn) => r.violations.push(Violation {
				property: "C12".into(),
				oracle: "no-panic".into(),
				identity: format!("no-panic|decode|{}", picked[i].0),
				detail: format!("decoding a truncated / extended {} panicked: {}", picked[i].0, pn),
				replay: json!({"kind": picked[i].0, "bytes": mc_common::hex(&picked[i].1)}),
			}),
		}
	}
	ev.set("corpus_objects", objs.len() as u64);
	ev.set("probed_objects", picked.len() as u64);
	ev.set("probed_objects_not_from_node0", undecodable);
	ev.set("truncations_checked", truncs);
	ev.set("odd_tlv_ignored", odd_ok);
	ev.set("even_tlv_rejected", even_rej);
	ev.set("trailing_stream_not_located", not_probed);
	// scorer and output sweeper: every operation sequence up to a depth bound
	if args.opt("only").is_none() || args.opt("only") == Some("aux") {
		let (st, av) = crate::checks::c12_aux::run_aux(tier.is_thorough(), args.threads);
		ev.set("scorer_states", st.scorer_states);
		ev.set("scorer_depth", st.depth_scorer as u64);
		ev.set("scorer_lookahead_comparisons", st.scorer_lookaheads);
		ev.set("scorer_distinct_observations", st.scorer_distinct_observations);
		ev.set("scorer_tlv_probes", st.scorer_tlv_probes);
		ev.set("sweeper_states", st.sweeper_states);
		ev.set("sweeper_depth", st.depth_sweeper as u64);
		ev.set("sweeper_states_written_and_reread", st.sweeper_states_written);
		ev.set("sweeper_lookahead_comparisons", st.sweeper_lookaheads);
		ev.set("sweeper_distinct_observations", st.sweeper_distinct_observations);
		ev.set("sweeper_tlv_probes", st.sweeper_tlv_probes);
		ev.set("graph_length_sweep_cases", st.graph_length_cases);
		ev.set("graph_length_sweep_roundtrips_equal", st.graph_length_roundtrips_ok);
		if st.scorer_distinct_observations < 10 || st.sweeper_distinct_observations < 10 || st.sweeper_states_written == 0 {
			mc_common::cli::die("vacuity guard: scorer / sweeper exploration reached too few distinct states");
		}
		r.violations.extend(av);
		if args.opt("only") == Some("aux") {
			ev.set("states", st.scorer_states + st.sweeper_states);
			ev.set("transitions", st.scorer_lookaheads + st.sweeper_lookaheads);
			ev.set("traces_validated_against_impl", st.scorer_states + st.sweeper_states);
		}
		ev.sample(json!({"aux": "scorer: every sequence of <= depth operations from {pay/probe x success/fail-at-hop x 3 paths x 2 amounts, +1h, +40d}; sweeper: every sequence of <= depth operations from {track o0, track o1, track o1 delayed, sweep, connect, connect+sweep-tx, confirm-style connect+sweep-tx, disconnect, jump 4100, unconfirm}"}), 8);
	}
	if args.opt("only").is_none() {
		crate::runner::require_witnesses(&mut ev, &["c12-monitor-roundtrip", "c12-update-roundtrip-and-apply", "c12-manager-roundtrip", "crash-restart"]);
		if truncs == 0 || odd_ok == 0 || even_rej == 0 {
			mc_common::cli::die("vacuity guard: encoding probes did not run");
		}
	} else {
		ev.set("witnesses", json!(crate::runner::witnesses()));
	}
	ev.assume("NetworkGraph round trips are checked at every reached graph state by the C17 engine");
	ev.assume("scorer: 3-channel graph, 30 operations (payment / probe success and failure at each hop of 3 paths x 2 amounts, two time jumps), monotone clock; sweeper: 10 operations (track 2 static outputs with / without delay, sweep, Listen / Confirm block connection with or without the sweep transaction, disconnect, 4100-block jump, transaction_unconfirmed), real KeysManager as spender; the sweeper is compared in the states in which it wrote itself to its store");
	ev.assume("behavioural equivalence of a re-read manager is judged by rebuilding the node from bytes at every point of the flows and requiring the flow to reach the same correct end (C10 oracles), allowing for the peer disconnection that writing implies");
	mc_common::findings::conclude("C12", &r.violations, &mut ev)
}

pub fn replay(rep: &mc_common::Value, name: &str, actions: &[String]) -> i32 {
	if rep.get("aux").is_some() {
		// scorer / sweeper exploration: small enough to re-run; report what it finds
		let (_, v) = crate::checks::c12_aux::run_aux(false, 8);
		for x in v.iter() {
			println!("{} {}", x.identity, x.detail);
		}
		println!("scorer / sweeper exploration: {} finding(s)", v.len());
		return if v.is_empty() { 0 } else { 1 };
	}
	if let (Some(kind), Some(hexs)) = (rep["kind"].as_str(), rep["bytes"].as_str()) {
		let bytes: Vec<u8> = (0..hexs.len() / 2).filter_map(|i| u8::from_str_radix(&hexs[2 * i..2 * i + 2], 16).ok()).collect();
		return match mc_common::par::guarded(|| probe_one(&kind.to_string(), &bytes)) {
			Ok((_, decodable, truncs, tlv, problems)) => {
				for (o, d) in problems.iter() {
					println!("{} {}", o, d);
				}
				println!("{} of {} bytes: decodable={} truncations={} tlv={:?} problems={}", kind, bytes.len(), decodable, truncs, tlv, problems.len());
				if problems.is_empty() { 0 } else { 1 }
			},
			Err(p) => {
				println!("panic {}", p);
				1
			},
		};
	}
	crate::persist::KEEP_ALL.store(true, std::sync::atomic::Ordering::Relaxed);
	let corpus: Corpus = Arc::new(Mutex::new(Vec::new()));
	for tier in [Tier::Quick, Tier::Thorough] {
		if let Some(s) = scenarios(tier, &corpus).into_iter().find(|s| s.name == name) {
			let r = mc_common::explore::replay::<WorldSys>(&*s.factory, actions, false);
			println!("{:?}", r);
			return match r {
				Ok(Ok(_)) => 0,
				_ => 1,
			};
		}
	}
	mc_common::cli::die("unknown scenario in replay file")
}
