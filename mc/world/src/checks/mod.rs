pub mod c01;
pub mod c02;
pub mod c04;
pub mod c05;
pub mod c07;
pub mod c09;
pub mod c10;
pub mod c12;
