pub mod c01;
