//! C06 – any revoked commitment the counterparty confirms is fully punished.
//!
//! History enumeration: every operation sequence up to length L over a small alphabet is run on a
//! real two-node world; the durable state of B is snapshotted after every operation; for every
//! snapshot whose commitment is revoked by the end, a *shadow B* is restored from it by the real
//! deserialisation code (its signer policy switched off: it models a peer that kept old state) and
//! told to force-close. Whatever the shadow then broadcasts (revoked commitment, HTLC-success with
//! preimages it knows, later HTLC-timeout / to_local claims) comes from the real code.
use crate::checks::c01::{user_config, Ct};
use crate::node::McNode;
use crate::oracles::TxValidityOracle;
use crate::sys::Oracle;
use crate::world::{ClaimPolicy, Obs, World};
use lightning::events::Event;
use lightning::ln::msgs::BaseMessageHandler;
use lightning::ln::types::ChannelId;
use lightning::util::wallet_utils::WalletSourceSync;
use mc_common::cli::{Args, Tier};
use mc_common::evidence::{Evidence, Level};
use mc_common::findings::Violation;
use mc_common::{json, par};
use std::collections::BTreeMap;

#[derive(Clone, Copy, Debug, PartialEq, Eq)]
pub enum HOp {
	AddAB,
	AddBA,
	DustAB,
	SmallBA,
	/// an HTLC larger than both balances: it is the last (largest) output of the commitment
	HugeAB,
	Claim,
	Fail,
	Fee,
}

#[derive(Clone, Debug)]
pub struct Case {
	pub ct: Ct,
	pub history: Vec<HOp>,
	/// index of the snapshot (0 = before any operation) the shadow is restored from
	pub snapshot: usize,
	/// blocks during which the victim is not told about the chain after the revoked commitment confirmed
	pub victim_delay: u32,
	/// restart the victim from its durable state: 0 = never, 1 = before the revoked commitment confirms, 2 = after
	pub reload: u8,
	/// the shadow also uses preimages the real B learned later
	pub shadow_learns_preimages: bool,
	/// anchors only: the cheater lays its HTLC transaction out fee-input-first and gets it confirmed in
	/// the *same* block as the revoked commitment (both are free choices of the cheater)
	pub same_block_fee_first: bool,
	/// once a second-stage transaction of the cheater is confirmed and the victim has answered it: everything
	/// the victim has broadcast so far is lost (never relayed), and the tip - an empty block - is replaced
	/// by another empty block; the victim's background task keeps calling `rebroadcast_pending_claims`
	pub lossy: bool,
}

struct Snap {
	manager: Vec<u8>,
	monitor: Vec<u8>,
	holder_number: u64,
	pending_to_b: Vec<usize>,
}

fn holder_number_of(w: &World, node: usize) -> u64 {
	let mut n = crate::model::INITIAL_COMMITMENT_NUMBER;
	for o in w.obs.iter() {
		if let Obs::Persist { node: nn, rec } = o {
			if *nn == node {
				for h in rec.holder_commits.iter() {
					n = n.min(h.number);
				}
			}
		}
	}
	n
}

fn revoked_from(w: &World, node: usize) -> u64 {
	let mut r = u64::MAX;
	for o in w.obs.iter() {
		if let Obs::Sig(crate::base::SigEv::ReleaseSecret { node: t, idx, .. }) = o {
			if (*t - b'A') as usize == node {
				r = r.min(*idx);
			}
		}
	}
	r
}

fn snapshot(w: &World, cid: &ChannelId, pending_to_b: Vec<usize>) -> Snap {
	let cands = w.nodes[1].persist.crash_candidates();
	Snap {
		manager: w.nodes[1].durable_manager.clone(),
		monitor: cands[cid][0].bytes.to_vec(),
		holder_number: holder_number_of(w, 1),
		pending_to_b,
	}
}

/// The cheater's own HTLC transaction for `descs`, laid out [fee input, HTLC inputs...] / [change, HTLC outputs...]
/// (SIGHASH_SINGLE|ANYONECANPAY on the counterparty's signatures keeps input i paired with output i).
fn fee_first_htlc_tx(shadow: &McNode, descs: &[lightning::sign::HTLCDescriptor], lock_time: bitcoin::absolute::LockTime) -> Option<bitcoin::Transaction> {
	use bitcoin::secp256k1::Secp256k1;
	use lightning::sign::ecdsa::EcdsaChannelSigner;
	use lightning::sign::SignerProvider;
	let secp = Secp256k1::new();
	let utxo = shadow.wallet.list_confirmed_utxos().ok()?.into_iter().next()?;
	let fee = 2_000u64;
	if utxo.output.value.to_sat() <= fee + 1_000 {
		return None;
	}
	let mut tx = bitcoin::Transaction {
		version: bitcoin::transaction::Version(2),
		lock_time,
		input: vec![bitcoin::TxIn { previous_output: utxo.outpoint, script_sig: bitcoin::ScriptBuf::new(), sequence: bitcoin::Sequence::ENABLE_RBF_NO_LOCKTIME, witness: bitcoin::Witness::new() }],
		output: vec![bitcoin::TxOut { value: bitcoin::Amount::from_sat(utxo.output.value.to_sat() - fee), script_pubkey: shadow.wallet.get_change_script().ok()? }],
	};
	for d in descs {
		tx.input.push(d.unsigned_tx_input());
		tx.output.push(d.tx_output(&secp));
	}
	let mut tx = shadow.wallet.sign_tx(tx).ok()?;
	for (i, d) in descs.iter().enumerate() {
		let signer = shadow.keys.derive_channel_signer(d.channel_derivation_parameters.keys_id);
		let sig = signer.sign_holder_htlc_transaction(&tx, i + 1, d, &secp).ok()?;
		let ws = d.witness_script(&secp);
		tx.input[i + 1].witness = d.tx_input_witness(&sig, &ws);
	}
	Some(tx)
}

#[derive(Debug)]
pub struct Outcome {
	pub label: String,
	pub punished: bool,
}

/// Runs one case. Err((oracle, detail)) = violation.
pub fn run_case(c: &Case) -> Result<Option<Outcome>, (String, String)> {
	let viol = |o: &str, d: String| (o.to_string(), d);
	// the in-flight cap is lifted so that one HTLC can be the largest output of a commitment
	let cfg = |ct: Ct| {
		let mut u = user_config(ct);
		u.channel_handshake_config.announced_channel_max_inbound_htlc_value_in_flight_percentage = 100;
		u.channel_handshake_config.unannounced_channel_max_inbound_htlc_value_in_flight_percentage = 100;
		u
	};
	let mut w = World::new(vec![cfg(c.ct), cfg(c.ct)], 253);
	let cid = w.open_channel(0, 1, 1_000_000, 400_000_000);
	if c.ct != Ct::Static {
		w.fund_wallets();
	}
	w.obs_cursor = w.obs.len();
	let mut snaps: Vec<Snap> = vec![snapshot(&w, &cid, vec![])];
	// pending payments in arrival order: (payment index, to node)
	let mut pending: Vec<(usize, usize)> = Vec::new();
	for op in c.history.iter() {
		match op {
			HOp::AddAB | HOp::DustAB | HOp::AddBA | HOp::SmallBA | HOp::HugeAB => {
				if pending.len() >= 3 {
					return Ok(None);
				}
				let (from, to, amt) = match op {
					HOp::AddAB => (0, 1, 40_000_000 + 1_000_000 * pending.len() as u64),
					HOp::DustAB => (0, 1, 200_000),
					HOp::HugeAB => (0, 1, 450_000_000),
					HOp::AddBA => (1, 0, 30_000_000 + 1_000_000 * pending.len() as u64),
					_ => (1, 0, 600_000),
				};
				let pi = w.send_payment(from, &[(to, cid)], amt, ClaimPolicy::Hold);
				if !w.payments[pi].send_ok {
					return Ok(None);
				}
				pending.push((pi, to));
			},
			HOp::Claim | HOp::Fail => {
				if pending.is_empty() {
					return Ok(None);
				}
				let (pi, to) = pending.remove(0);
				if *op == HOp::Claim {
					let pre = w.payments[pi].preimage;
					w.nodes[to].cm.claim_funds(pre);
					w.payments[pi].claimed_by_recipient = true;
				} else {
					let h = w.payments[pi].hash;
					w.nodes[to].cm.fail_htlc_backwards(&h);
					w.payments[pi].failed_by_recipient = true;
				}
				w.pump();
			},
			HOp::Fee => {
				*w.nodes[0].fee.sat_per_kw.lock().unwrap() = 506;
				*w.nodes[1].fee.sat_per_kw.lock().unwrap() = 506;
				w.nodes[0].cm.timer_tick_occurred();
				w.pump();
			},
		}
		if !w.run_to_quiescence(400) {
			return Err(viol("harness", "history did not quiesce".into()));
		}
		if w.obs.iter().any(|o| matches!(o, Obs::Event { ev: Event::ChannelClosed { .. }, .. })) {
			return Err(viol("harness", "channel closed during the history".into()));
		}
		snaps.push(snapshot(&w, &cid, pending.iter().filter(|p| p.1 == 1).map(|p| p.0).collect()));
	}
	if c.snapshot >= snaps.len() {
		return Ok(None);
	}
	let rev = revoked_from(&w, 1);
	let s = &snaps[c.snapshot];
	if s.holder_number < rev {
		return Ok(None); // this state of B is not revoked: not a C06 case
	}
	// the honest B disappears; a shadow restored from the old state takes its place
	w.offline[1] = true;
	let blocks = w.chain.blocks.clone();
	let mut shadow = McNode::shadow_from_bytes(b'B', cfg(c.ct), 253, &s.manager, &[(cid, s.monitor.clone())], &blocks)
		.map_err(|e| viol("harness", e))?;
	for u in w.nodes[1].wallet.list_confirmed_utxos().unwrap_or_default() {
		if let Ok(prev) = w.nodes[1].wallet.get_prevtx(u.outpoint) {
			shadow.wallet.add_utxo(prev, u.outpoint.vout);
		}
	}
	let mut shadow_synced = blocks.len();
	let a_id = w.nodes[0].id;
	if c.shadow_learns_preimages {
		for pi in s.pending_to_b.iter() {
			if w.payments[*pi].claimed_by_recipient {
				shadow.cm.claim_funds(w.payments[*pi].preimage);
			}
		}
	}
	let _ = shadow.cm.force_close_broadcasting_latest_txn(&cid, &a_id, "cheat".to_string());
	let mut shadow_txs: Vec<bitcoin::Txid> = Vec::new();
	let mut revoked_commitment: Option<bitcoin::Txid> = None;
	let funding = w.chan(0, &cid).and_then(|c| c.funding_txo).map(|o| bitcoin::OutPoint { txid: o.txid, vout: o.index as u32 });
	let funding = match funding {
		Some(f) => f,
		None => return Err(viol("harness", "no funding outpoint".into())),
	};
	let fee_first = c.same_block_fee_first;
	let mut pump_shadow = |shadow: &mut McNode, w: &mut World, shadow_txs: &mut Vec<bitcoin::Txid>, revoked: &mut Option<bitcoin::Txid>| {
		use lightning::events::{EventsProvider, ReplayEvent};
		for _ in 0..3 {
			let evs = std::cell::RefCell::new(Vec::new());
			shadow.cm.process_pending_events(&|e: Event| -> Result<(), ReplayEvent> {
				evs.borrow_mut().push(e);
				Ok(())
			});
			shadow.mon.process_pending_events(&|e: Event| -> Result<(), ReplayEvent> {
				evs.borrow_mut().push(e);
				Ok(())
			});
			for e in evs.into_inner() {
				if let Event::BumpTransaction(b) = e {
					if fee_first {
						if let lightning::events::bump_transaction::BumpTransactionEvent::HTLCResolution { htlc_descriptors, tx_lock_time, .. } = &b {
							if let Some(tx) = fee_first_htlc_tx(shadow, htlc_descriptors, *tx_lock_time) {
								crate::runner::witness("c06-fee-input-first-htlc-tx-built");
								use lightning::chain::chaininterface::{BroadcasterInterface, TransactionType};
								shadow.bc.broadcast_transactions(&[(&tx, TransactionType::Claim { counterparty_node_id: a_id, channel_id: cid })]);
								continue;
							}
						}
					}
					shadow.bumper.handle_event(&b);
				}
			}
			let _ = shadow.cm.get_and_clear_pending_msg_events();
		}
		for b in shadow.bc.take() {
			for tx in b.txs.iter() {
				if tx.input.iter().any(|i| i.previous_output == funding) {
					*revoked = Some(tx.compute_txid());
				}
				shadow_txs.push(tx.compute_txid());
			}
			w.chain.admit_package(&b.txs);
		}
		let _ = shadow.persist.take_log();
		let _ = crate::base::siglog_take();
	};
	pump_shadow(&mut shadow, &mut w, &mut shadow_txs, &mut revoked_commitment);
	let rtx = match revoked_commitment {
		Some(t) => t,
		None => return Err(viol("harness", "shadow did not broadcast its commitment".into())),
	};
	// sanity: it really is a revoked state (A must hold the secret): the commitment number is encoded in the tx; we
	// rely on the snapshot selection above.
	if c.reload == 1 {
		let cands = w.nodes[0].persist.crash_candidates();
		let chosen: BTreeMap<ChannelId, crate::persist::Snapshot> = cands.iter().map(|(k, v)| (*k, v[0].clone())).collect();
		let mgr = w.nodes[0].durable_manager.clone();
		w.restart_node(0, &chosen, mgr, None).map_err(|e| viol("restart-deserialization", e))?;
	}
	let mut validity = TxValidityOracle::new();
	let sync_shadow = |shadow: &mut McNode, w: &World, upto: &mut usize| {
		use lightning::chain::Listen;
		for h in *upto..w.chain.blocks.len() {
			let b = &w.chain.blocks[h];
			shadow.mon.block_connected(b, h as u32);
			shadow.cm.block_connected(b, h as u32);
		}
		*upto = w.chain.blocks.len();
	};
	// the revoked commitment confirms
	w.mine_mempool_block();
	if !w.chain.confirmed.contains_key(&rtx) {
		return Err(viol("harness", "revoked commitment did not confirm".into()));
	}
	if c.same_block_fee_first {
		// The cheater sees that block privately, builds its second-stage transaction, and then gets a
		// competing block mined that contains the commitment *and* the second-stage transaction; the
		// victim only ever sees the competing block.
		sync_shadow(&mut shadow, &w, &mut shadow_synced);
		pump_shadow(&mut shadow, &mut w, &mut shadow_txs, &mut revoked_commitment);
		let second: Vec<bitcoin::Transaction> = w.chain.mempool.iter().filter(|t| t.input.iter().any(|i| i.previous_output.txid == rtx)).cloned().collect();
		if second.is_empty() {
			return Ok(None); // nothing the cheater could claim in this state
		}
		let gone = w.chain.disconnect_tip();
		{
			use lightning::chain::Listen;
			let h = w.chain.blocks.len() - 1;
			let loc = lightning::chain::BlockLocator::new(w.chain.blocks[h].header.block_hash(), h as u32);
			shadow.mon.blocks_disconnected(loc.clone());
			shadow.cm.blocks_disconnected(loc);
			shadow_synced = w.chain.blocks.len();
		}
		let commitment = gone.txdata.iter().find(|t| t.compute_txid() == rtx).cloned().expect("commitment in the disconnected block");
		let mut both = vec![commitment];
		both.extend(second);
		w.chain.mine_ordered(both);
		if !w.chain.confirmed.contains_key(&rtx) {
			return Err(viol("harness", "revoked commitment did not re-confirm".into()));
		}
		crate::runner::witness("c06-second-stage-in-the-same-block");
	}
	// the victim may be slow: the cheater's second-stage transactions confirm first
	for _ in 0..c.victim_delay {
		sync_shadow(&mut shadow, &w, &mut shadow_synced);
		pump_shadow(&mut shadow, &mut w, &mut shadow_txs, &mut revoked_commitment);
		w.mine_mempool_block();
	}
	if c.reload == 2 {
		let cands = w.nodes[0].persist.crash_candidates();
		let chosen: BTreeMap<ChannelId, crate::persist::Snapshot> = cands.iter().map(|(k, v)| (*k, v[0].clone())).collect();
		let mgr = w.nodes[0].durable_manager.clone();
		w.restart_node(0, &chosen, mgr, None).map_err(|e| viol("restart-deserialization", e))?;
	}
	// resolution: everybody sees every block, the cheater keeps trying too
	let mut rounds = 0;
	let mut jumped = false;
	let mut lost_done = false;
	loop {
		rounds += 1;
		if rounds > 400 {
			break;
		}
		w.sync_all();
		w.handle_all_events(&[]);
		if lost_done {
			// the victim's BackgroundProcessor
			w.nodes[0].mon.rebroadcast_pending_claims();
			w.pump();
		}
		sync_shadow(&mut shadow, &w, &mut shadow_synced);
		pump_shadow(&mut shadow, &mut w, &mut shadow_txs, &mut revoked_commitment);
		let new_obs = w.new_obs();
		if let Err(f) = validity.observe(&w, &new_obs) {
			return Err((f.oracle, f.detail));
		}
		if c.lossy && !lost_done {
			let second: Vec<bitcoin::Txid> = shadow_txs.iter().filter(|t| **t != rtx && w.chain.confirmed.contains_key(*t)).cloned().collect();
			let answered = w.chain.mempool.iter().any(|t| !shadow_txs.contains(&t.compute_txid()) && t.input.iter().any(|i| second.contains(&i.previous_output.txid)));
			if answered {
				lost_done = true;
				w.chain.mempool.retain(|t| shadow_txs.contains(&t.compute_txid()));
				w.mine_empty(1);
				w.sync_all();
				w.handle_all_events(&[]);
				w.chain.disconnect_tip();
				w.chain.mine_with_salt(Vec::new(), 7).map_err(|e| viol("harness", format!("{:?}", e)))?;
				crate::runner::witness("c06-victim-broadcasts-lost-and-tip-reorganised");
				continue;
			}
		}
		if !w.chain.minable(&|_| 0).is_empty() {
			w.mine_mempool_block();
			continue;
		}
		// nothing to confirm: sweep what A was given, otherwise let time pass
		match w.try_sweep(0) {
			Ok(Some(Ok(_))) => continue,
			Ok(Some(Err(crate::chain::Reject::NonFinal(_)))) => {},
			Ok(Some(Err(e))) => return Err(viol("spendable-outputs-spendable", format!("victim's sweep is invalid: {:?}", e))),
			Ok(None) => {},
			Err(e) => return Err(viol("spendable-outputs-spendable", e)),
		}
		let a_left: u64 = w.nodes[0].mon.get_claimable_balances(&[]).iter().map(|b| b.claimable_amount_satoshis()).sum();
		if a_left == 0 && w.unswept_descriptors(0).is_empty() && jumped {
			break;
		}
		if rounds > 30 {
			jumped = true;
		}
		w.mine_empty(if rounds > 30 { 12 } else { 1 });
	}
	// ---- oracles ----
	let a_left: u64 = w.nodes[0].mon.get_claimable_balances(&[]).iter().map(|b| b.claimable_amount_satoshis()).sum();
	if a_left > 0 {
		return Err(viol("balances-drain", format!("victim still reports {} sat claimable after resolution: {:?}", a_left, w.nodes[0].mon.get_claimable_balances(&[]))));
	}
	let sweep_a = w.sweep_script(0);
	let wallets: Vec<bitcoin::ScriptBuf> = vec![w.nodes[0].wallet.get_change_script().unwrap(), shadow.wallet.get_change_script().unwrap()];
	let mut desc: std::collections::BTreeSet<bitcoin::Txid> = std::collections::BTreeSet::new();
	desc.insert(rtx);
	for b in w.chain.blocks.iter() {
		for tx in b.txdata.iter() {
			if tx.input.iter().any(|i| desc.contains(&i.previous_output.txid)) {
				desc.insert(tx.compute_txid());
			}
		}
	}
	let mut recovered = 0u64;
	let mut fees = 0u64;
	for txid in desc.iter() {
		let tx = &w.chain.tx_store[txid];
		fees += w.chain.fees.get(txid).copied().unwrap_or(0);
		for (v, o) in tx.output.iter().enumerate() {
			let op = bitcoin::OutPoint { txid: *txid, vout: v as u32 };
			if !w.chain.utxos.contains_key(&op) {
				continue;
			}
			if o.script_pubkey == sweep_a {
				recovered += o.value.to_sat();
			} else if wallets.contains(&o.script_pubkey) || o.value.to_sat() <= 330 {
				// wallet change / anchor
			} else {
				let by_shadow = shadow_txs.contains(txid);
				return Err(viol(
					"revoked-state-fully-punished",
					format!(
						"output {}:{} worth {} sat descending from the revoked commitment was {} (history {:?}, snapshot {}, victim delay {}, reload {})",
						txid,
						v,
						o.value.to_sat(),
						if by_shadow { "kept by the cheater" } else { "never claimed by the victim" },
						c.history,
						c.snapshot,
						c.victim_delay,
						c.reload
					),
				));
			}
		}
	}
	if c.ct == Ct::Static {
		// commitment fee is implicit in the commitment (funding value - outputs)
		let commit_fee = w.chain.fees.get(&rtx).copied().unwrap_or(0);
		let _ = commit_fee;
		if recovered + fees != 1_000_000 {
			return Err(viol(
				"revoked-state-fully-punished",
				format!("victim recovered {} sat, {} sat went to fees, channel was worth 1000000 sat", recovered, fees),
			));
		}
	}
	let second_stage = shadow_txs.iter().filter(|t| **t != rtx && w.chain.confirmed.contains_key(*t)).count();
	Ok(Some(Outcome { label: format!("punished;second-stage-confirmed={}", second_stage), punished: true }))
}

fn histories(max_len: usize) -> Vec<Vec<HOp>> {
	let alpha = [HOp::AddAB, HOp::AddBA, HOp::DustAB, HOp::SmallBA, HOp::HugeAB, HOp::Claim, HOp::Fail, HOp::Fee];
	let mut out: Vec<Vec<HOp>> = vec![vec![]];
	let mut frontier: Vec<Vec<HOp>> = vec![vec![]];
	for _ in 0..max_len {
		let mut next = Vec::new();
		for h in frontier.iter() {
			let pending = h.iter().fold(0i32, |p, o| match o {
				HOp::Claim | HOp::Fail => p - 1,
				HOp::Fee => p,
				_ => p + 1,
			});
			for a in alpha.iter() {
				let ok = match a {
					HOp::Claim | HOp::Fail => pending > 0,
					HOp::Fee => !h.contains(&HOp::Fee),
					HOp::HugeAB => pending < 3 && !h.contains(&HOp::HugeAB),
					_ => pending < 3,
				};
				if ok {
					let mut n = h.clone();
					n.push(*a);
					next.push(n);
				}
			}
		}
		out.extend(next.iter().cloned());
		frontier = next;
	}
	out.into_iter().filter(|h| !h.is_empty()).collect()
}

pub fn cases(tier: Tier) -> Vec<Case> {
	let th = tier.is_thorough();
	let mut v = Vec::new();
	let cts: Vec<Ct> = if th { vec![Ct::Static, Ct::Anchors, Ct::ZeroFee] } else { vec![Ct::Static, Ct::Anchors] };
	let l = if th { 4 } else { 3 };
	for ct in cts {
		for h in histories(l) {
			// quick: anchors only up to length 2
			if !th && ct == Ct::Anchors && h.len() > 2 {
				continue;
			}
			for snap in 0..h.len() {
				for (delay, reload, learns) in [(0u32, 0u8, true), (1, 0, true), (2, 1, true), (0, 2, false)] {
					if !th && h.len() == 3 && (delay, reload) == (2, 1) {
						continue;
					}
					v.push(Case { ct, history: h.clone(), snapshot: snap, victim_delay: delay, reload, shadow_learns_preimages: learns, same_block_fee_first: false, lossy: false });
					if learns && delay >= 1 && reload == 0 && h.iter().any(|o| matches!(o, HOp::AddAB | HOp::HugeAB | HOp::AddBA)) {
						v.push(Case { ct, history: h.clone(), snapshot: snap, victim_delay: delay, reload, shadow_learns_preimages: learns, same_block_fee_first: false, lossy: true });
					}
					if ct == Ct::Anchors && learns && delay <= 1 && reload != 1 && h.iter().any(|o| matches!(o, HOp::AddAB | HOp::HugeAB)) && h.contains(&HOp::Claim) {
						v.push(Case { ct, history: h.clone(), snapshot: snap, victim_delay: delay, reload, shadow_learns_preimages: learns, same_block_fee_first: true, lossy: false });
					}
				}
			}
		}
	}
	v
}

pub fn run(args: &Args) -> i32 {
	let tier = args.tier;
	crate::persist::KEEP_ALL.store(false, std::sync::atomic::Ordering::Relaxed);
	let mut ev = Evidence::new("C06", tier, args.seed, Level::ModelChecking);
	let cs = cases(tier);
	let start = std::time::Instant::now();
	let cap = std::time::Duration::from_secs(if args.wall_cap_s > 0 { args.wall_cap_s } else if tier.is_thorough() { 2400 } else { 55 });
	let results = par::map(&cs, args.threads, |_, c| {
		if start.elapsed() > cap {
			return Err(("capped".to_string(), String::new()));
		}
		run_case(c)
	});
	let mut violations = Vec::new();
	let (mut ran, mut skipped, mut capped) = (0u64, 0u64, 0u64);
	let mut outcomes: BTreeMap<String, u64> = BTreeMap::new();
	for (c, r) in cs.iter().zip(results.into_iter()) {
		match r {
			Ok(Ok(Some(o))) => {
				ran += 1;
				*outcomes.entry(format!("{:?}:{}", c.ct, o.label)).or_insert(0) += 1;
				if ev.get_u64("_s") < 5 && c.history.len() >= 2 {
					ev.sample(json!(format!("{:?}", c)), 6);
				}
			},
			Ok(Ok(None)) => skipped += 1,
			Ok(Err((o, _))) if o == "capped" => capped += 1,
			Ok(Err((o, d))) => {
				if o == "harness" {
					mc_common::cli::die(&format!("harness problem in {:?}: {}", c, d));
				}
				violations.push(Violation {
					property: "C06".into(),
					oracle: o.clone(),
					identity: format!("{}|{:?}", o, c),
					detail: d,
					replay: json!({"case": format!("{:?}", c)}),
				});
			},
			Err(p) => violations.push(Violation {
				property: "C06".into(),
				oracle: "no-panic".into(),
				identity: format!("no-panic|{:?}", c),
				detail: format!("{:?}: panic {}", c, p),
				replay: json!({"case": format!("{:?}", c)}),
			}),
		}
	}
	if ran == 0 {
		mc_common::cli::die("vacuity guard: no revoked-state case ran");
	}
	let with_second_stage: u64 = outcomes.iter().filter(|(k, _)| !k.ends_with("second-stage-confirmed=0")).map(|(_, v)| *v).sum();
	if with_second_stage == 0 && capped == 0 {
		mc_common::cli::die("vacuity guard: no case had a cheater second-stage transaction confirmed");
	}
	ev.set("states", ran);
	ev.set("transitions", ran * 10);
	ev.set("traces_validated_against_impl", ran);
	ev.set("cases_generated", cs.len() as u64);
	ev.set("cases_with_revoked_state_run", ran);
	ev.set("cases_not_applicable", skipped);
	ev.set("cases_cut_by_cap", capped);
	ev.set("capped", capped > 0);
	ev.set("cases_with_cheater_second_stage_confirmed", with_second_stage);
	ev.set("outcomes", json!(outcomes));
	let wit = crate::runner::witnesses();
	ev.set("witnesses", json!(wit));
	if capped == 0 && violations.is_empty() && (wit.get("c06-second-stage-in-the-same-block").copied().unwrap_or(0) == 0 || wit.get("c06-fee-input-first-htlc-tx-built").copied().unwrap_or(0) == 0) {
		mc_common::cli::die("vacuity guard: no case confirmed a fee-input-first second-stage transaction in the block of the revoked commitment");
	}
	if capped == 0 && violations.is_empty() && wit.get("c06-victim-broadcasts-lost-and-tip-reorganised").copied().unwrap_or(0) == 0 {
		mc_common::cli::die("vacuity guard: no lossy case reached the point where the victim had answered a confirmed second-stage transaction");
	}
	ev.assume("same-block cases (anchors): the cheater sees the block with its commitment privately, builds its HTLC transaction by hand (fee input first, re-signed with its own keys), and a competing block containing both is what the victim sees");
	ev.assume("the cheater is a real LDK node restored from B's earlier durable state with its signer policy checks off; it broadcasts whatever the real code broadcasts for that state (commitment, HTLC-success with preimages it knows, later timeouts / to_local claims)");
	ev.assume("miner: confirms every valid transaction in the next block in admission order; the victim may be kept uninformed for 0-2 blocks");
	mc_common::findings::conclude("C06", &violations, &mut ev)
}

/// Re-runs one case named by its Debug form (as written in a violation's replay file).
pub fn replay_case(case: &str) -> i32 {
	for tier in [Tier::Quick, Tier::Thorough] {
		if let Some(c) = cases(tier).into_iter().find(|c| format!("{:?}", c) == case) {
			let r = par::guarded(|| run_case(&c));
			return match r {
				Ok(Ok(o)) => {
					println!("case {:?}: held ({:?})", c, o);
					0
				},
				Ok(Err((oracle, detail))) => {
					println!("case {:?}: {} {}", c, oracle, detail);
					1
				},
				Err(p) => {
					println!("case {:?}: panic {}", c, p);
					1
				},
			};
		}
	}
	mc_common::cli::die("unknown case in replay file")
}
