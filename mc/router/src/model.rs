//! Plain-data model of the enumerated inputs: graphs, policies, queries, and their JSON form.
//!
//! Nothing in this module touches LDK. The validator and the brute-force searcher work on these
//! structures only (the "independent side" of the oracle); `build.rs` turns the same structures into
//! the real LDK objects that are handed to `find_route`.
use mc_common::{json, Value};

pub const PAYER: u8 = 0;
pub const PAYEE: u8 = 1;
/// Virtual node index standing for "the recipient behind a blinded path".
pub const BLINDED_PAYEE: u8 = 200;

pub const FINAL_CLTV: u32 = 18;
pub const MAX_VALUE_MSAT: u64 = 21_000_000 * 100_000_000 * 1000;

pub const RESTR_MIN: u64 = 150_000;
pub const RESTR_MAX: u64 = 400_000;

/// Channel capacity classes.
#[derive(Clone, Copy, PartialEq, Eq, Debug, Hash, PartialOrd, Ord)]
pub enum Cap {
	Small,
	Large,
	/// The whole bitcoin supply (overflow family only).
	Huge,
	/// Announced without a UTXO lookup: capacity unknown, only `htlc_maximum_msat` is known.
	Unknown,
}

impl Cap {
	pub fn sats(self) -> Option<u64> {
		match self {
			Cap::Small => Some(1_000),
			Cap::Large => Some(5_000),
			Cap::Huge => Some(MAX_VALUE_MSAT / 1000),
			Cap::Unknown => None,
		}
	}
	/// Default `htlc_maximum_msat` of a non-restrictive policy on a channel of this class.
	pub fn full_htlc_max(self) -> u64 {
		match self {
			Cap::Unknown => 1_000_000,
			c => c.sats().unwrap() * 1000,
		}
	}
	pub fn name(self) -> &'static str {
		match self {
			Cap::Small => "small",
			Cap::Large => "large",
			Cap::Huge => "huge",
			Cap::Unknown => "unknown",
		}
	}
	pub fn parse(s: &str) -> Option<Cap> {
		Some(match s {
			"small" => Cap::Small,
			"large" => Cap::Large,
			"huge" => Cap::Huge,
			"unknown" => Cap::Unknown,
			_ => return None,
		})
	}
}

/// The curated per-direction policy domain.
#[derive(Clone, Copy, PartialEq, Eq, Debug, Hash, PartialOrd, Ord)]
pub enum Pol {
	/// No `channel_update` was ever received for this direction.
	NoUpdate,
	/// An update with the disable bit set (otherwise like `Free`).
	Disabled,
	Free,
	/// base fee 1000 msat
	Base,
	/// proportional fee 1 %
	Prop,
	/// high minimum, maximum well below capacity, fees, CLTV delta 40
	Restr,
	/// u32::MAX base and proportional fee (overflow family)
	Extreme,
}

pub const POL_FULL: [Pol; 6] = [Pol::NoUpdate, Pol::Disabled, Pol::Free, Pol::Base, Pol::Prop, Pol::Restr];
pub const POL_REDUCED: [Pol; 3] = [Pol::Disabled, Pol::Free, Pol::Restr];
/// Domain for directions no payer->payee path can traverse (into the payer / out of the payee).
pub const POL_BACKWARD: [Pol; 3] = [Pol::NoUpdate, Pol::Free, Pol::Restr];
pub const POL_OVERFLOW: [Pol; 3] = [Pol::Free, Pol::Extreme, Pol::Prop];

impl Pol {
	pub fn name(self) -> &'static str {
		match self {
			Pol::NoUpdate => "none",
			Pol::Disabled => "disabled",
			Pol::Free => "free",
			Pol::Base => "base",
			Pol::Prop => "prop",
			Pol::Restr => "restr",
			Pol::Extreme => "extreme",
		}
	}
	pub fn parse(s: &str) -> Option<Pol> {
		Some(match s {
			"none" => Pol::NoUpdate,
			"disabled" => Pol::Disabled,
			"free" => Pol::Free,
			"base" => Pol::Base,
			"prop" => Pol::Prop,
			"restr" => Pol::Restr,
			"extreme" => Pol::Extreme,
			_ => return None,
		})
	}
	/// Concrete values of the policy on a channel of capacity class `cap`.
	pub fn vals(self, cap: Cap) -> Option<PolVals> {
		let full = cap.full_htlc_max();
		Some(match self {
			Pol::NoUpdate => return None,
			Pol::Disabled => PolVals { enabled: false, base: 0, ppm: 0, min: 0, max: full, cltv: 6 },
			Pol::Free => PolVals { enabled: true, base: 0, ppm: 0, min: 0, max: full, cltv: 6 },
			Pol::Base => PolVals { enabled: true, base: 1000, ppm: 0, min: 1, max: full, cltv: 6 },
			Pol::Prop => PolVals { enabled: true, base: 0, ppm: 10_000, min: 1000, max: full, cltv: 6 },
			Pol::Restr => PolVals {
				enabled: true,
				base: 500,
				ppm: 5_000,
				min: RESTR_MIN,
				max: RESTR_MAX.min(full),
				cltv: 40,
			},
			Pol::Extreme => PolVals { enabled: true, base: u32::MAX, ppm: u32::MAX, min: 0, max: full, cltv: 6 },
		})
	}
}

#[derive(Clone, Copy, PartialEq, Eq, Debug)]
pub struct PolVals {
	pub enabled: bool,
	pub base: u32,
	pub ppm: u32,
	pub min: u64,
	pub max: u64,
	pub cltv: u16,
}

/// One announced channel between nodes `a < b` (node indices). `pol_ab` is the policy of the
/// direction a->b. The short channel id is `index + 1`.
#[derive(Clone, Copy, PartialEq, Eq, Debug, Hash)]
pub struct Chan {
	pub a: u8,
	pub b: u8,
	pub cap: Cap,
	pub pol_ab: Pol,
	pub pol_ba: Pol,
}

#[derive(Clone, PartialEq, Eq, Debug, Hash)]
pub struct Graph {
	pub chans: Vec<Chan>,
}

impl Graph {
	pub fn scid(idx: usize) -> u64 {
		idx as u64 + 1
	}
	pub fn compact(&self) -> String {
		let mut s = String::new();
		for (i, c) in self.chans.iter().enumerate() {
			if i > 0 {
				s.push(';');
			}
			s.push_str(&format!("{}-{}:{}:{}/{}", c.a, c.b, c.cap.name(), c.pol_ab.name(), c.pol_ba.name()));
		}
		s
	}
	pub fn to_json(&self) -> Value {
		Value::Array(
			self.chans
				.iter()
				.enumerate()
				.map(|(i, c)| {
					json!({"scid": Graph::scid(i), "a": c.a, "b": c.b, "cap": c.cap.name(),
						"pol_ab": c.pol_ab.name(), "pol_ba": c.pol_ba.name()})
				})
				.collect(),
		)
	}
	pub fn from_json(v: &Value) -> Option<Graph> {
		let mut chans = Vec::new();
		for c in v.as_array()? {
			chans.push(Chan {
				a: c["a"].as_u64()? as u8,
				b: c["b"].as_u64()? as u8,
				cap: Cap::parse(c["cap"].as_str()?)?,
				pol_ab: Pol::parse(c["pol_ab"].as_str()?)?,
				pol_ba: Pol::parse(c["pol_ba"].as_str()?)?,
			});
		}
		Some(Graph { chans })
	}
}

/// A `ChannelDetails` handed to the router as a first hop.
#[derive(Clone, PartialEq, Eq, Debug)]
pub struct FirstHop {
	/// the channel's outbound SCID alias, if it has one besides its real SCID
	pub alias: Option<u64>,
	pub scid: u64,
	pub to: u8,
	pub limit: u64,
	pub min: u64,
	pub announced: bool,
}

/// One hop of a BOLT 11 route hint: a private channel `src -> next` (next is the following hop's
/// source or the payee).
#[derive(Clone, PartialEq, Eq, Debug)]
pub struct HintHop {
	pub src: u8,
	pub scid: u64,
	pub base: u32,
	pub ppm: u32,
	pub cltv: u16,
	pub min: Option<u64>,
	pub max: Option<u64>,
}

#[derive(Clone, PartialEq, Eq, Debug)]
pub struct BlindedHint {
	pub intro: u8,
	/// number of blinded hops (1 = the introduction node is the recipient, payinfo ignored)
	pub hops: u8,
	pub base: u32,
	pub ppm: u32,
	pub cltv: u16,
	pub min: u64,
	pub max: u64,
}

#[derive(Clone, PartialEq, Eq, Debug)]
pub enum Tail {
	/// Known payee node (index 1) with optional route hints.
	Clear { hints: Vec<Vec<HintHop>> },
	/// Blinded recipient reached through the given blinded paths.
	Blinded { paths: Vec<BlindedHint> },
}

#[derive(Clone, Copy, PartialEq, Eq, Debug)]
pub enum Scorer {
	/// `FixedPenaltyScorer::with_penalty(p)`
	Fixed(u64),
	/// own scorer: per-channel fixed penalties (rotated by `rot`), plus a usage-dependent term
	PerChan { rot: u8 },
	/// LDK's `ProbabilisticScorer` with default parameters and no history
	Prob,
}

#[derive(Clone, PartialEq, Eq, Debug)]
pub struct InFlight {
	pub scid: u64,
	pub from: u8,
	pub to: u8,
	pub amount: u64,
}

#[derive(Clone, PartialEq, Eq, Debug)]
pub struct Query {
	pub amount: u64,
	pub max_paths: u8,
	/// whether the payee's invoice features advertise basic MPP
	pub mpp_features: bool,
	pub sat_pow: u8,
	pub fee_limit: Option<u64>,
	pub max_cltv: u32,
	pub max_len: u8,
	pub failed: Vec<u64>,
	pub failed_blinded: Vec<u64>,
	pub first_hops: Option<Vec<FirstHop>>,
	pub tail: Tail,
	pub scorer: Scorer,
	pub inflight: Option<InFlight>,
	pub seed: u8,
}

impl Query {
	pub fn base(amount: u64) -> Query {
		Query {
			amount,
			max_paths: 1,
			mpp_features: true,
			sat_pow: 0,
			fee_limit: None,
			max_cltv: 1008,
			max_len: 19,
			failed: Vec::new(),
			failed_blinded: Vec::new(),
			first_hops: None,
			tail: Tail::Clear { hints: Vec::new() },
			scorer: Scorer::Fixed(0),
			inflight: None,
			seed: 42,
		}
	}

	pub fn to_json(&self) -> Value {
		let fh = match &self.first_hops {
			None => Value::Null,
			Some(v) => Value::Array(
				v.iter()
					.map(|f| json!({"scid": f.scid, "alias": f.alias, "to": f.to, "limit": f.limit, "min": f.min, "announced": f.announced}))
					.collect(),
			),
		};
		let tail = match &self.tail {
			Tail::Clear { hints } => json!({"kind": "clear", "hints": hints.iter().map(|h| {
				Value::Array(h.iter().map(|x| json!({"src": x.src, "scid": x.scid, "base": x.base, "ppm": x.ppm,
					"cltv": x.cltv, "min": x.min, "max": x.max})).collect())
			}).collect::<Vec<_>>()}),
			Tail::Blinded { paths } => json!({"kind": "blinded", "paths": paths.iter().map(|b| {
				json!({"intro": b.intro, "hops": b.hops, "base": b.base, "ppm": b.ppm, "cltv": b.cltv,
					"min": b.min, "max": b.max})
			}).collect::<Vec<_>>()}),
		};
		let scorer = match self.scorer {
			Scorer::Fixed(p) => json!({"kind": "fixed", "penalty": p}),
			Scorer::PerChan { rot } => json!({"kind": "perchan", "rot": rot}),
			Scorer::Prob => json!({"kind": "prob"}),
		};
		let inflight = match &self.inflight {
			None => Value::Null,
			Some(i) => json!({"scid": i.scid, "from": i.from, "to": i.to, "amount": i.amount}),
		};
		json!({
			"amount": self.amount, "max_paths": self.max_paths, "mpp_features": self.mpp_features,
			"sat_pow": self.sat_pow, "fee_limit": self.fee_limit, "max_cltv": self.max_cltv,
			"max_len": self.max_len, "failed": self.failed, "failed_blinded": self.failed_blinded,
			"first_hops": fh, "tail": tail, "scorer": scorer, "inflight": inflight, "seed": self.seed,
		})
	}

	pub fn from_json(v: &Value) -> Option<Query> {
		let first_hops = match &v["first_hops"] {
			Value::Null => None,
			Value::Array(a) => {
				let mut o = Vec::new();
				for f in a {
					o.push(FirstHop {
						alias: f.get("alias").and_then(|x| x.as_u64()),
						scid: f["scid"].as_u64()?,
						to: f["to"].as_u64()? as u8,
						limit: f["limit"].as_u64()?,
						min: f["min"].as_u64()?,
						announced: f["announced"].as_bool()?,
					});
				}
				Some(o)
			},
			_ => return None,
		};
		let t = &v["tail"];
		let tail = match t["kind"].as_str()? {
			"clear" => {
				let mut hints = Vec::new();
				for h in t["hints"].as_array()? {
					let mut hops = Vec::new();
					for x in h.as_array()? {
						hops.push(HintHop {
							src: x["src"].as_u64()? as u8,
							scid: x["scid"].as_u64()?,
							base: x["base"].as_u64()? as u32,
							ppm: x["ppm"].as_u64()? as u32,
							cltv: x["cltv"].as_u64()? as u16,
							min: x["min"].as_u64(),
							max: x["max"].as_u64(),
						});
					}
					hints.push(hops);
				}
				Tail::Clear { hints }
			},
			"blinded" => {
				let mut paths = Vec::new();
				for b in t["paths"].as_array()? {
					paths.push(BlindedHint {
						intro: b["intro"].as_u64()? as u8,
						hops: b["hops"].as_u64()? as u8,
						base: b["base"].as_u64()? as u32,
						ppm: b["ppm"].as_u64()? as u32,
						cltv: b["cltv"].as_u64()? as u16,
						min: b["min"].as_u64()?,
						max: b["max"].as_u64()?,
					});
				}
				Tail::Blinded { paths }
			},
			_ => return None,
		};
		let s = &v["scorer"];
		let scorer = match s["kind"].as_str()? {
			"fixed" => Scorer::Fixed(s["penalty"].as_u64()?),
			"perchan" => Scorer::PerChan { rot: s["rot"].as_u64()? as u8 },
			"prob" => Scorer::Prob,
			_ => return None,
		};
		let inflight = match &v["inflight"] {
			Value::Null => None,
			i => Some(InFlight {
				scid: i["scid"].as_u64()?,
				from: i["from"].as_u64()? as u8,
				to: i["to"].as_u64()? as u8,
				amount: i["amount"].as_u64()?,
			}),
		};
		let u64s = |x: &Value| -> Option<Vec<u64>> { x.as_array()?.iter().map(|e| e.as_u64()).collect() };
		Some(Query {
			amount: v["amount"].as_u64()?,
			max_paths: v["max_paths"].as_u64()? as u8,
			mpp_features: v["mpp_features"].as_bool()?,
			sat_pow: v["sat_pow"].as_u64()? as u8,
			fee_limit: v["fee_limit"].as_u64(),
			max_cltv: v["max_cltv"].as_u64()? as u32,
			max_len: v["max_len"].as_u64()? as u8,
			failed: u64s(&v["failed"])?,
			failed_blinded: u64s(&v["failed_blinded"])?,
			first_hops,
			tail,
			scorer,
			inflight,
			seed: v["seed"].as_u64()? as u8,
		})
	}

	pub fn compact(&self) -> String {
		mc_common::serde_json::to_string(&self.to_json()).unwrap()
	}
}

/// A directed, usable-or-not edge as seen by the independent side.
#[derive(Clone, Copy, PartialEq, Eq, Debug)]
pub enum EdgeKind {
	Public(usize),
	FirstHop(usize),
	Hint(usize, usize),
	Blinded(usize),
}

#[derive(Clone, Copy, Debug)]
pub struct Edge {
	pub kind: EdgeKind,
	pub scid: u64,
	pub from: u8,
	pub to: u8,
	pub enabled: bool,
	/// For public channels: whether the *opposite* direction also has an update (LDK refuses to
	/// route over channels for which it has only seen one direction).
	pub reverse_known: bool,
	pub base: u32,
	pub ppm: u32,
	pub min: u64,
	/// min(htlc_maximum, capacity) / outbound limit / hint maximum (u64::MAX if unlimited)
	pub max: u64,
	pub cltv: u32,
	/// the edge does not count towards `Path::hops` (blinded tail)
	pub virtual_hop: bool,
	/// announced channels only: (advertised htlc_maximum_msat, on-chain capacity in msat if known)
	pub announced: Option<(u64, Option<u64>)>,
}

impl Edge {
	/// The limit the router applies while `max_channel_saturation_power_of_half` is in force: the
	/// share `capacity >> pow` of an announced channel (of the advertised maximum if the capacity
	/// is unknown), never more than the advertised maximum. Other edge kinds are not affected.
	pub fn saturation_limited_max(&self, pow: u8) -> u64 {
		match self.announced {
			Some((hmax, Some(cap))) => hmax.min(cap.checked_shr(pow as u32).unwrap_or(0)),
			Some((hmax, None)) => hmax.checked_shr(pow as u32).unwrap_or(0),
			None => self.max,
		}
	}
	pub fn fee_for(&self, amt: u128) -> u128 {
		self.base as u128 + amt * self.ppm as u128 / 1_000_000
	}
}

/// All directed edges the caller's inputs describe, in a fixed order. Directions without an update
/// are not listed (there is no policy to check against).
pub fn edges(g: &Graph, q: &Query) -> Vec<Edge> {
	let mut out = Vec::new();
	for (i, c) in g.chans.iter().enumerate() {
		let cap_msat = c.cap.sats().map(|s| s * 1000).unwrap_or(u64::MAX);
		for (from, to, pol, rev) in [(c.a, c.b, c.pol_ab, c.pol_ba), (c.b, c.a, c.pol_ba, c.pol_ab)] {
			if let Some(v) = pol.vals(c.cap) {
				out.push(Edge {
					kind: EdgeKind::Public(i),
					scid: Graph::scid(i),
					from,
					to,
					enabled: v.enabled,
					reverse_known: rev != Pol::NoUpdate,
					base: v.base,
					ppm: v.ppm,
					min: v.min,
					max: v.max.min(cap_msat),
					cltv: v.cltv as u32,
					virtual_hop: false,
					announced: Some((v.max, c.cap.sats().map(|s| s * 1000))),
				});
			}
		}
	}
	if let Some(fh) = &q.first_hops {
		for (i, f) in fh.iter().enumerate() {
			out.push(Edge {
				kind: EdgeKind::FirstHop(i),
				scid: f.scid,
				from: PAYER,
				to: f.to,
				enabled: true,
				reverse_known: true,
				base: 0,
				ppm: 0,
				min: f.min,
				max: f.limit,
				cltv: 0,
				virtual_hop: false,
				announced: None,
			});
		}
	}
	match &q.tail {
		Tail::Clear { hints } => {
			for (hi, h) in hints.iter().enumerate() {
				for (k, hop) in h.iter().enumerate() {
					let to = if k + 1 < h.len() { h[k + 1].src } else { PAYEE };
					// a hint hop that names one of the payer's own channels (by real SCID or alias) adds nothing:
					// the supplied first hop, with its current limits, is what may be used
					let own = hop.src == PAYER && q.first_hops.as_ref().map_or(false, |f| f.iter().any(|x| x.scid == hop.scid || x.alias == Some(hop.scid)));
					if own {
						continue;
					}
					out.push(Edge {
						kind: EdgeKind::Hint(hi, k),
						scid: hop.scid,
						from: hop.src,
						to,
						enabled: true,
						reverse_known: true,
						base: hop.base,
						ppm: hop.ppm,
						min: hop.min.unwrap_or(0),
						max: hop.max.unwrap_or(u64::MAX),
						cltv: hop.cltv as u32,
						virtual_hop: false,
						announced: None,
					});
				}
			}
		},
		Tail::Blinded { paths } => {
			for (i, b) in paths.iter().enumerate() {
				let one = b.hops == 1;
				out.push(Edge {
					kind: EdgeKind::Blinded(i),
					scid: 0,
					from: b.intro,
					to: BLINDED_PAYEE,
					enabled: true,
					reverse_known: true,
					base: if one { 0 } else { b.base },
					ppm: if one { 0 } else { b.ppm },
					min: if one { 0 } else { b.min },
					max: if one { u64::MAX } else { b.max },
					cltv: if one { 0 } else { b.cltv as u32 },
					virtual_hop: true,
					announced: None,
				});
			}
		},
	}
	out
}

pub fn target_node(q: &Query) -> u8 {
	match q.tail {
		Tail::Clear { .. } => PAYEE,
		Tail::Blinded { .. } => BLINDED_PAYEE,
	}
}

pub fn final_cltv(q: &Query) -> u32 {
	match q.tail {
		Tail::Clear { .. } => FINAL_CLTV,
		Tail::Blinded { .. } => 0,
	}
}
