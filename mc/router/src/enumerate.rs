//! The enumerated families: graphs (multigraph topology x capacity x per-direction policy) and,
//! per graph, the list of queries. Everything is a pure function of indices, so work can be split
//! into chunks and every case is reproducible.
use crate::model::*;

#[derive(Clone, Copy, PartialEq, Eq, Debug)]
pub enum QSet {
	/// every query family
	Full,
	/// core + limits + first hops (no hints / blinded / in-flight)
	Medium,
	/// core queries only
	Core,
	Overflow,
}

#[derive(Clone, Debug)]
pub struct Family {
	pub name: &'static str,
	pub nodes: u8,
	pub chans: usize,
	/// policy domain of directions a payer->payee path can traverse
	pub pol: &'static [Pol],
	/// policy domain of directions into the payer / out of the payee (None: same as `pol`)
	pub pol_backward: Option<&'static [Pol]>,
	/// capacity assignments: either independent per channel from this list ...
	pub caps: &'static [Cap],
	/// ... or, if non-empty, only these patterns (index = channel index, cycled)
	pub cap_patterns: &'static [&'static [Cap]],
	pub qset: QSet,
	/// amount list richness
	pub amount_level: u8,
}

pub fn pairs(nodes: u8) -> Vec<(u8, u8)> {
	let mut v = Vec::new();
	for a in 0..nodes {
		for b in (a + 1)..nodes {
			v.push((a, b));
		}
	}
	v
}

/// All multisets (non-decreasing index sequences) of `k` pairs out of `n`.
pub fn multisets(n: usize, k: usize) -> Vec<Vec<usize>> {
	fn rec(n: usize, k: usize, start: usize, cur: &mut Vec<usize>, out: &mut Vec<Vec<usize>>) {
		if cur.len() == k {
			out.push(cur.clone());
			return;
		}
		for i in start..n {
			cur.push(i);
			rec(n, k, i, cur, out);
			cur.pop();
		}
	}
	let mut out = Vec::new();
	rec(n, k, 0, &mut Vec::new(), &mut out);
	out
}

impl Family {
	fn backward(&self, from: u8, to: u8) -> bool {
		to == PAYER || from == PAYEE
	}
	fn dir_domain(&self, from: u8, to: u8) -> &'static [Pol] {
		match self.pol_backward {
			Some(b) if self.backward(from, to) => b,
			_ => self.pol,
		}
	}
	pub fn cap_assignments(&self) -> Vec<Vec<Cap>> {
		if !self.cap_patterns.is_empty() {
			return self
				.cap_patterns
				.iter()
				.map(|p| (0..self.chans).map(|i| p[i % p.len()]).collect())
				.collect();
		}
		let mut out: Vec<Vec<Cap>> = vec![Vec::new()];
		for _ in 0..self.chans {
			let mut nx = Vec::new();
			for o in &out {
				for c in self.caps {
					let mut v = o.clone();
					v.push(*c);
					nx.push(v);
				}
			}
			out = nx;
		}
		out
	}
	/// Number of policy combinations for one multiset of pairs.
	pub fn policy_combos(&self, ms: &[(u8, u8)]) -> u64 {
		ms.iter().map(|(a, b)| (self.dir_domain(*a, *b).len() * self.dir_domain(*b, *a).len()) as u64).product()
	}
	pub fn graph(&self, ms: &[(u8, u8)], caps: &[Cap], mut idx: u64) -> Graph {
		let mut chans = Vec::with_capacity(ms.len());
		for (i, (a, b)) in ms.iter().enumerate() {
			let dab = self.dir_domain(*a, *b);
			let dba = self.dir_domain(*b, *a);
			let pab = dab[(idx % dab.len() as u64) as usize];
			idx /= dab.len() as u64;
			let pba = dba[(idx % dba.len() as u64) as usize];
			idx /= dba.len() as u64;
			chans.push(Chan { a: *a, b: *b, cap: caps[i], pol_ab: pab, pol_ba: pba });
		}
		Graph { chans }
	}
}

#[derive(Clone, Debug)]
pub struct Chunk {
	pub family: usize,
	pub ms: Vec<(u8, u8)>,
	pub caps: Vec<Cap>,
	pub lo: u64,
	pub hi: u64,
}

pub fn chunks(fams: &[Family], chunk_graphs: u64) -> Vec<Chunk> {
	let mut out = Vec::new();
	for (fi, f) in fams.iter().enumerate() {
		let ps = pairs(f.nodes);
		for ms in multisets(ps.len(), f.chans) {
			let msp: Vec<(u8, u8)> = ms.iter().map(|i| ps[*i]).collect();
			let combos = f.policy_combos(&msp);
			for caps in f.cap_assignments() {
				let mut lo = 0;
				while lo < combos {
					let hi = (lo + chunk_graphs).min(combos);
					out.push(Chunk { family: fi, ms: msp.clone(), caps: caps.clone(), lo, hi });
					lo = hi;
				}
			}
		}
	}
	out
}

const SL: &[Cap] = &[Cap::Small, Cap::Large];
const SLU: &[Cap] = &[Cap::Small, Cap::Large, Cap::Unknown];
const LH: &[Cap] = &[Cap::Large, Cap::Huge];
pub fn families(thorough: bool) -> Vec<Family> {
	let f = |name, nodes, chans, pol, pol_backward, caps, cap_patterns, qset, amount_level| Family {
		name,
		nodes,
		chans,
		pol,
		pol_backward,
		caps,
		cap_patterns,
		qset,
		amount_level,
	};
	if !thorough {
		vec![
			f("n3c1-full", 3, 1, &POL_FULL, None, SLU, &[], QSet::Full, 1),
			f("overflow-n3c1", 3, 1, &POL_OVERFLOW, None, LH, &[], QSet::Overflow, 0),
			f("overflow-n3c2", 3, 2, &POL_OVERFLOW, None, LH, &[], QSet::Overflow, 0),
			f("n3c3-reduced", 3, 3, &POL_REDUCED, Some(&[Pol::Free]), SL, &[], QSet::Full, 0),
			f("n3c2-full", 3, 2, &POL_FULL, None, SL, &[], QSet::Full, 0),
			f("n4c3-reduced", 4, 3, &POL_REDUCED, Some(&[Pol::Free]), SL, &[], QSet::Core, 0),
		]
	} else {
		vec![
			f("n4c1-full", 4, 1, &POL_FULL, None, SLU, &[], QSet::Full, 1),
			f("overflow-n4c1", 4, 1, &POL_OVERFLOW, None, LH, &[], QSet::Overflow, 0),
			f("overflow-n4c2", 4, 2, &POL_OVERFLOW, None, LH, &[], QSet::Overflow, 0),
			f("overflow-n4c3", 4, 3, &[Pol::Free, Pol::Extreme], Some(&[Pol::Free]), &[], &[&[Cap::Huge, Cap::Large, Cap::Huge]], QSet::Overflow, 0),
			f("n3c2-unknown-capacity", 3, 2, &POL_FULL, None, &[Cap::Unknown, Cap::Small], &[], QSet::Full, 0),
			f("n4c2-full", 4, 2, &POL_FULL, None, SL, &[], QSet::Full, 1),
			f("n4c4-reduced", 4, 4, &POL_REDUCED, Some(&[Pol::Free]), SL, &[], QSet::Core, 0),
			f("n3c3-full", 3, 3, &POL_FULL, Some(&POL_BACKWARD), SL, &[], QSet::Medium, 0),
			f("n4c3-full", 4, 3, &POL_FULL, Some(&POL_BACKWARD), SL, &[], QSet::Core, 0),
		]
	}
}

pub fn amounts(g: &Graph, level: u8) -> Vec<u64> {
	let caps: Vec<u64> = g.chans.iter().map(|c| c.cap.full_htlc_max()).collect();
	let min_cap = caps.iter().copied().min().unwrap_or(1_000_000);
	let two = if caps.len() >= 2 { caps[0] + caps[1] } else { caps.first().copied().unwrap_or(1_000_000) };
	let all: u64 = caps.iter().sum();
	let mut v = vec![1, RESTR_MIN, RESTR_MAX, min_cap, two, all + 1];
	if level >= 1 {
		v.extend_from_slice(&[
			RESTR_MIN - 1,
			RESTR_MAX + 1,
			min_cap - 1000,
			min_cap - 999,
			min_cap * 100 / 101,
			min_cap * 100 / 101 + 1,
			600_000,
		]);
	}
	v.sort();
	v.dedup();
	v
}

fn has_node(g: &Graph, n: u8) -> bool {
	g.chans.iter().any(|c| c.a == n || c.b == n)
}

pub fn fh_public(g: &Graph, limit: u64, min: u64) -> Vec<FirstHop> {
	g.chans
		.iter()
		.enumerate()
		.filter(|(_, c)| c.a == PAYER)
		.map(|(i, c)| FirstHop { alias: None, scid: Graph::scid(i), to: c.b, limit, min, announced: true })
		.collect()
}

pub fn fh_private(g: &Graph, limit: u64) -> Vec<FirstHop> {
	let to = if has_node(g, 2) { 2 } else { PAYEE };
	vec![FirstHop { alias: None, scid: 800, to, limit, min: 0, announced: false }]
}

fn hint_free(src: u8, scid: u64) -> HintHop {
	HintHop { src, scid, base: 0, ppm: 0, cltv: 6, min: None, max: None }
}
fn hint_restr(src: u8, scid: u64) -> HintHop {
	HintHop { src, scid, base: 500, ppm: 5_000, cltv: 40, min: Some(RESTR_MIN), max: Some(RESTR_MAX) }
}
fn blinded_paid(intro: u8) -> BlindedHint {
	BlindedHint { intro, hops: 2, base: 1000, ppm: 10_000, cltv: 40, min: 1000, max: 800_000 }
}
fn blinded_free(intro: u8) -> BlindedHint {
	BlindedHint { intro, hops: 2, base: 0, ppm: 0, cltv: 10, min: 0, max: 10_000_000 }
}

pub fn tails(g: &Graph, nodes: u8, thorough: bool, any_first_hop_to_2: bool) -> Vec<Tail> {
	let mut v = Vec::new();
	let n2 = has_node(g, 2) || any_first_hop_to_2;
	if n2 {
		v.push(Tail::Clear { hints: vec![vec![hint_free(2, 900)]] });
		v.push(Tail::Clear { hints: vec![vec![hint_restr(2, 900)]] });
		v.push(Tail::Blinded { paths: vec![blinded_free(2)] });
	}
	v.push(Tail::Blinded { paths: vec![blinded_paid(PAYEE)] });
	v.push(Tail::Blinded { paths: vec![BlindedHint { hops: 1, ..blinded_free(PAYEE) }] });
	if thorough {
		if n2 {
			v.push(Tail::Blinded { paths: vec![blinded_paid(PAYEE), blinded_free(2)] });
			v.push(Tail::Clear { hints: vec![vec![hint_free(2, 900)], vec![hint_restr(2, 902)]] });
		}
		if nodes >= 4 && (has_node(g, 3) || n2) {
			let mut h0 = hint_free(3, 901);
			h0.base = 1000;
			v.push(Tail::Clear { hints: vec![vec![h0, hint_free(2, 900)]] });
		}
	}
	v
}

/// The queries run against one graph.
pub fn queries(g: &Graph, fam: &Family, thorough: bool) -> Vec<Query> {
	if fam.qset == QSet::Overflow {
		return overflow_queries(g);
	}
	let amts = amounts(g, fam.amount_level);
	let mut out = Vec::new();
	let paths = [1u8, 2u8];
	let nchan = g.chans.len();

	// Core: amount x path count x scorer x saturation; everything else non-binding.
	let mut scorers = vec![Scorer::Fixed(0), Scorer::PerChan { rot: 0 }];
	if thorough && fam.qset != QSet::Core {
		scorers.push(Scorer::PerChan { rot: 1 });
		scorers.push(Scorer::Prob);
	}
	for &a in &amts {
		for &mp in &paths {
			for &sc in &scorers {
				for sat in [0u8, 2u8] {
					let mut q = Query::base(a);
					q.max_paths = mp;
					q.scorer = sc;
					q.sat_pow = sat;
					out.push(q);
				}
			}
		}
	}
	if fam.qset == QSet::Core {
		// a slice of the other dimensions so that the large graphs still see them
		let fh = fh_public(g, 600_000, 0);
		for &a in &amts {
			let mut q = Query::base(a);
			q.max_paths = 2;
			q.first_hops = Some(fh.clone());
			out.push(q);
			for fl in [0u64, 1_500, 10_000] {
				let mut q = Query::base(a);
				q.max_paths = 2;
				q.fee_limit = Some(fl);
				out.push(q);
			}
			let mut q = Query::base(a);
			q.max_len = 2;
			out.push(q);
			for mc in [12u32, 46] {
				for with_fh in [false, true] {
					let mut q = Query::base(a);
					q.max_cltv = FINAL_CLTV + mc;
					if with_fh {
						q.first_hops = Some(fh.clone());
					}
					out.push(q);
				}
			}
			for i in 0..nchan {
				let mut q = Query::base(a);
				q.max_paths = 2;
				q.failed = vec![Graph::scid(i)];
				out.push(q);
			}
		}
		return out;
	}

	// Limits, one at a time.
	let mut limit_variants: Vec<Box<dyn Fn(&mut Query)>> = Vec::new();
	for fl in [0u64, 1_500, 10_000] {
		limit_variants.push(Box::new(move |q: &mut Query| q.fee_limit = Some(fl)));
	}
	// CLTV budgets just below / at the sums the policy domain can produce (6, 12, 40, 46, 52, 80 ...),
	// without first hops (the payer's own channel delta counts towards the router's budget but is
	// not part of the route) and with first hops (delta 0).
	let fh_for_cltv = fh_public(g, 600_000, 0);
	for mc in [5u32, 6, 11, 12, 39, 40, 45, 46, 92] {
		limit_variants.push(Box::new(move |q: &mut Query| q.max_cltv = FINAL_CLTV + mc));
		let fh = fh_for_cltv.clone();
		limit_variants.push(Box::new(move |q: &mut Query| {
			q.max_cltv = FINAL_CLTV + mc;
			q.first_hops = Some(fh.clone());
		}));
		if thorough {
			limit_variants.push(Box::new(move |q: &mut Query| {
				q.max_cltv = FINAL_CLTV + mc;
				q.seed = 7
			}));
		}
	}
	limit_variants.push(Box::new(|q: &mut Query| q.max_len = 1));
	if fam.nodes >= 4 {
		limit_variants.push(Box::new(|q: &mut Query| q.max_len = 2));
	}
	for i in 0..nchan {
		let s = Graph::scid(i);
		limit_variants.push(Box::new(move |q: &mut Query| q.failed = vec![s]));
	}
	for &a in &amts {
		for &mp in &paths {
			for lv in &limit_variants {
				let mut q = Query::base(a);
				q.max_paths = mp;
				lv(&mut q);
				out.push(q);
			}
		}
	}
	// CLTV budget not above the final delta: must be refused up front.
	let mut q = Query::base(amts[0]);
	q.max_cltv = FINAL_CLTV;
	out.push(q);

	// First hops.
	let mut fhs: Vec<Vec<FirstHop>> = vec![fh_public(g, 600_000, 0), fh_private(g, 600_000)];
	if thorough {
		fhs.push(fh_public(g, 250_000, 2_000));
		let mut both = fh_public(g, 600_000, 0);
		both.extend(fh_private(g, 300_000));
		fhs.push(both);
	}
	for fh in &fhs {
		for &a in &amts {
			for &mp in &paths {
				for sc in [Scorer::Fixed(0), Scorer::PerChan { rot: 0 }] {
					let mut q = Query::base(a);
					q.max_paths = mp;
					q.scorer = sc;
					q.first_hops = Some(fh.clone());
					out.push(q);
				}
			}
		}
	}
	if fam.qset == QSet::Medium {
		return out;
	}

	// Route hints and blinded tails, without and with first hops.
	for fh in [None, Some(fh_public(g, 600_000, 0)), Some(fh_private(g, 600_000))] {
		let to2 = fh.as_ref().map_or(false, |f| f.iter().any(|h| h.to == 2));
		for t in tails(g, fam.nodes, thorough, to2) {
			for &a in &amts {
				for &mp in &paths {
					let mut q = Query::base(a);
					q.max_paths = mp;
					q.first_hops = fh.clone();
					q.tail = t.clone();
					out.push(q);
				}
			}
			// excluded hint / blinded path
			let mut q = Query::base(amts[1]);
			q.first_hops = fh.clone();
			q.tail = t.clone();
			match &t {
				Tail::Clear { .. } => q.failed = vec![900],
				Tail::Blinded { .. } => q.failed_blinded = vec![0],
			}
			out.push(q);
		}
	}

	// The invoice's route hint names one of the payer's own channels (by its real SCID or by its alias; the
	// channel has both): the supplied first hop with its current limits is what counts, amounts around them.
	{
		let to = if has_node(g, 2) { 2 } else { PAYEE };
		let (limit, min) = (300_000u64, 2_000u64);
		let fh = vec![FirstHop { alias: Some(801), scid: 800, to, limit, min, announced: false }];
		for named in [800u64, 801] {
			let mut own = hint_free(PAYER, named);
			own.max = Some(10_000_000);
			let hint = if to == PAYEE { vec![own] } else { vec![own, hint_free(2, 900)] };
			for a in [min - 1, min, limit / 2, limit, limit + 1, 2 * limit, 1_000_000] {
				for &mp in &paths {
					let mut q = Query::base(a);
					q.max_paths = mp;
					q.first_hops = Some(fh.clone());
					q.tail = Tail::Clear { hints: vec![hint.clone()] };
					out.push(q);
				}
			}
		}
	}

	// In-flight HTLCs (seen by the scorer) and a non-zero fixed penalty.
	for (i, c) in g.chans.iter().enumerate() {
		for &a in &amts {
			for &mp in &paths {
				let mut q = Query::base(a);
				q.max_paths = mp;
				q.scorer = Scorer::PerChan { rot: 0 };
				q.inflight = Some(InFlight { scid: Graph::scid(i), from: c.a, to: c.b, amount: c.cap.full_htlc_max() / 2 });
				out.push(q);
			}
		}
	}
	for &a in &amts {
		for &mp in &paths {
			let mut q = Query::base(a);
			q.max_paths = mp;
			q.scorer = Scorer::Fixed(5_000);
			out.push(q);
		}
		// payee without MPP support: two paths requested, one allowed
		let mut q = Query::base(a);
		q.max_paths = 2;
		q.mpp_features = false;
		out.push(q);
	}
	out
}

fn overflow_queries(g: &Graph) -> Vec<Query> {
	let mut out = Vec::new();
	let amts = [1u64, 1_000_000, 1_000_000_000_000, MAX_VALUE_MSAT / 2, MAX_VALUE_MSAT, MAX_VALUE_MSAT + 1];
	let ext_hint = HintHop { src: 2, scid: 900, base: u32::MAX, ppm: u32::MAX, cltv: u16::MAX, min: None, max: None };
	let ext_hint_lowcltv = HintHop { cltv: 6, ..ext_hint.clone() };
	let ext_blinded =
		BlindedHint { intro: PAYEE, hops: 2, base: u32::MAX, ppm: u32::MAX, cltv: 40, min: 0, max: u64::MAX };
	let tails = [
		Tail::Clear { hints: vec![] },
		Tail::Clear { hints: vec![vec![ext_hint]] },
		Tail::Clear { hints: vec![vec![ext_hint_lowcltv]] },
		Tail::Blinded { paths: vec![ext_blinded] },
	];
	let fhs = [None, Some(fh_public(g, MAX_VALUE_MSAT, 0)), Some(fh_public(g, u64::MAX, 0))];
	for &a in &amts {
		for mp in [1u8, 2u8] {
			for fl in [None, Some(u64::MAX), Some(MAX_VALUE_MSAT)] {
				for fh in &fhs {
					for t in &tails {
						let mut q = Query::base(a);
						q.max_paths = mp;
						q.fee_limit = fl;
						q.first_hops = fh.clone();
						q.tail = t.clone();
						out.push(q);
					}
				}
			}
		}
	}
	out
}
