//! Brute-force completeness oracle (property C16, last sentence): enumerate every simple path
//! payer -> payee over the edges the caller described and decide, by walking the amounts backwards
//! from the payee with exact fee arithmetic, whether some *single* path can carry the requested
//! amount within every hop's minimum / maximum / capacity, the path-length limit and the excluded
//! channels. No router code is used.
use crate::model::*;

#[derive(Clone, Debug)]
pub struct Feasible {
	pub edges: Vec<usize>,
	pub total_fee: u128,
	pub cltv: u32,
	/// also feasible under the router's documented arithmetic / saturation restrictions
	pub strict: bool,
	/// some hop's htlc_minimum exceeds the requested amount and is only met thanks to the fees of
	/// the hops after it
	pub min_lifted_by_fees: bool,
	/// some hop is filled to within 2 msat of its limit while a later hop charges a proportional
	/// fee (the router's max-contribution estimate is documented to be imprecise by rounding)
	pub exact_fit: bool,
}

/// Router restrictions that are mirrored here because they are legitimate, documented behaviour and
/// not part of the property (see the evidence assumptions):
/// * a public channel is only used if *both* directions have been announced by a channel_update;
/// * at most `min(max_path_length, 19)` hops;
/// * a blinded path is only considered if its introduction node is known (in the graph or a
///   first-hop counterparty);
/// * when first hops are supplied, the payer's announced channels are ignored.
pub fn usable(e: &Edge, q: &Query, nodes_in_graph: &[bool; 8]) -> bool {
	if !e.enabled || !e.reverse_known {
		return false;
	}
	match e.kind {
		EdgeKind::Blinded(i) => {
			if q.failed_blinded.contains(&(i as u64)) {
				return false;
			}
			let known = (e.from as usize) < 8 && nodes_in_graph[e.from as usize]
				|| q.first_hops.as_ref().map_or(false, |f| f.iter().any(|h| h.to == e.from));
			known && e.from != PAYER
		},
		EdgeKind::FirstHop(_) => !q.failed.contains(&e.scid),
		EdgeKind::Public(_) => !q.failed.contains(&e.scid) && !(e.from == PAYER && q.first_hops.is_some()),
		EdgeKind::Hint(..) => !q.failed.contains(&e.scid),
	}
}

pub fn nodes_in_graph(g: &Graph) -> [bool; 8] {
	let mut n = [false; 8];
	for c in &g.chans {
		n[c.a as usize] = true;
		n[c.b as usize] = true;
	}
	n
}

/// Checks one concrete path (edge indices in payer->payee order) for the exact amount.
/// `sat_pow`: the caller's `max_channel_saturation_power_of_half` (0 = whole capacity usable).
/// `u64_fee_arith`: treat a hop as unusable when `amount * ppm` does not fit in a u64 (the
/// router computes fees with a checked u64 product and gives such hops an infinite cost).
pub fn path_carries(edges: &[Edge], path: &[usize], amount: u64, sat_pow: u8, u64_fee_arith: bool) -> Option<u128> {
	let mut amt = amount as u128;
	let mut fee_total = 0u128;
	for (k, ei) in path.iter().enumerate().rev() {
		let e = &edges[*ei];
		if amt < e.min as u128 || amt > e.saturation_limited_max(sat_pow) as u128 || amt > u64::MAX as u128 {
			return None;
		}
		if k > 0 {
			// the node in front of this edge charges for forwarding over it
			if u64_fee_arith && amt * e.ppm as u128 > u64::MAX as u128 {
				return None;
			}
			let fee = e.fee_for(amt);
			fee_total += fee;
			amt += fee;
		}
	}
	Some(fee_total)
}

fn exact_fit(edges: &[Edge], path: &[usize], amount: u64, sat_pow: u8) -> bool {
	let mut amt = amount as u128;
	let mut prop_after = false;
	for (k, ei) in path.iter().enumerate().rev() {
		let e = &edges[*ei];
		if prop_after && (e.saturation_limited_max(sat_pow) as u128).saturating_sub(amt) <= 2 {
			return true;
		}
		if k > 0 {
			if e.ppm > 0 {
				prop_after = true;
			}
			amt += e.fee_for(amt);
		}
	}
	false
}

pub fn feasible_single_path(g: &Graph, q: &Query, edges: &[Edge]) -> Option<Feasible> {
	if q.amount == 0 || q.amount > MAX_VALUE_MSAT {
		return None;
	}
	let target = target_node(q);
	let in_graph = nodes_in_graph(g);
	let max_hops = q.max_len.min(19) as usize;
	let ok: Vec<bool> = edges.iter().map(|e| usable(e, q, &in_graph)).collect();
	let mut best: Option<Feasible> = None;
	let mut stack: Vec<usize> = Vec::new();
	let mut visited: Vec<u8> = vec![PAYER];
	dfs(edges, &ok, q, target, max_hops, PAYER, &mut stack, &mut visited, &mut best);
	best
}

fn dfs(
	edges: &[Edge], ok: &[bool], q: &Query, target: u8, max_hops: usize, cur: u8, stack: &mut Vec<usize>,
	visited: &mut Vec<u8>, best: &mut Option<Feasible>,
) {
	for (ei, e) in edges.iter().enumerate() {
		if !ok[ei] || e.from != cur || visited.contains(&e.to) {
			continue;
		}
		let real_hops = stack.iter().filter(|i| !edges[**i].virtual_hop).count() + if e.virtual_hop { 0 } else { 1 };
		if real_hops > max_hops {
			continue;
		}
		stack.push(ei);
		if e.to == target {
			if let Some(fee) = path_carries(edges, stack, q.amount, 0, false) {
				let cltv: u32 = stack.iter().map(|i| edges[*i].cltv).sum();
				let strict = path_carries(edges, stack, q.amount, q.sat_pow, true).is_some();
				let lifted = stack.iter().any(|i| edges[*i].min > q.amount);
				let tight = exact_fit(edges, stack, q.amount, q.sat_pow);
				let better = match best {
					None => true,
					Some(b) => {
						(!strict, lifted, tight, stack.len(), fee)
							< (!b.strict, b.min_lifted_by_fees, b.exact_fit, b.edges.len(), b.total_fee)
					},
				};
				if better {
					*best = Some(Feasible {
						edges: stack.clone(),
						total_fee: fee,
						cltv,
						strict,
						min_lifted_by_fees: lifted,
						exact_fit: tight,
					});
				}
			}
		} else {
			visited.push(e.to);
			dfs(edges, ok, q, target, max_hops, e.to, stack, visited, best);
			visited.pop();
		}
		stack.pop();
	}
}

/// Whether the completeness clause applies to this query ("the fee and timelock limits are not
/// binding"): no fee cap, the default CLTV budget with room for the router's own shadow-offset
/// reserve (2 x 40 blocks), and a feasible path well inside it.
pub fn completeness_applies(q: &Query, f: &Feasible) -> bool {
	f.strict && q.fee_limit.is_none() && q.max_cltv == 1008 && f.cltv + final_cltv(q) + 80 <= q.max_cltv
}
