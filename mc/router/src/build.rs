//! Turns the plain-data model into real LDK objects, calls the real `find_route`, and copies the
//! returned `Route` into a plain structure for the independent validator.
use crate::model::*;
use bitcoin::constants::ChainHash;
use bitcoin::hashes::Hash;
use bitcoin::secp256k1::{PublicKey, Secp256k1, SecretKey};
use bitcoin::{Amount, Network, ScriptBuf, TxOut};
use lightning::blinded_path::payment::{BlindedPayInfo, BlindedPaymentPath};
use lightning::blinded_path::BlindedHop;
use lightning::chain::transaction::OutPoint;
use lightning::ln::chan_utils::make_funding_redeemscript;
use lightning::ln::channel_state::{ChannelCounterparty, ChannelDetails, ChannelShutdownState};
use lightning::ln::msgs::{UnsignedChannelAnnouncement, UnsignedChannelUpdate};
use lightning::ln::types::ChannelId;
use lightning::routing::gossip::{EffectiveCapacity, NetworkGraph, NodeId};
use lightning::routing::router::{
	find_route, CandidateRouteHop, InFlightHtlcs, PaymentParameters, Route, RouteHint, RouteHintHop,
	RouteParameters, ScorerAccountingForInFlightHtlcs,
};
use lightning::routing::scoring::{
	ChannelUsage, FixedPenaltyScorer, ProbabilisticScorer, ProbabilisticScoringDecayParameters,
	ProbabilisticScoringFeeParameters, ScoreLookUp,
};
use lightning::routing::utxo::{UtxoLookup, UtxoResult};
use lightning::types::features::{
	BlindedHopFeatures, Bolt11InvoiceFeatures, Bolt12InvoiceFeatures, ChannelFeatures, InitFeatures,
};
use lightning::types::routing::RoutingFees;
use lightning::util::logger::{Logger, Record};
use lightning::util::wakers::Notifier;
use std::sync::{Arc, OnceLock};

pub static VERBOSE: std::sync::atomic::AtomicBool = std::sync::atomic::AtomicBool::new(false);
pub struct Nop;
impl Logger for Nop {
	fn log(&self, r: Record) {
		if VERBOSE.load(std::sync::atomic::Ordering::Relaxed) {
			println!("  ldk[{}]: {}", r.level, r.args);
		}
	}
}

pub struct Keys {
	pub node: Vec<PublicKey>,
	pub node_id: Vec<NodeId>,
	pub btc1: PublicKey,
	pub btc2: PublicKey,
	pub funding_script: ScriptBuf,
	pub blinding: Vec<PublicKey>,
	pub blinded_node: PublicKey,
	pub chain: ChainHash,
}

pub fn keys() -> &'static Keys {
	static K: OnceLock<Keys> = OnceLock::new();
	K.get_or_init(|| {
		let secp = Secp256k1::new();
		let pk = |b: u8| PublicKey::from_secret_key(&secp, &SecretKey::from_slice(&[b; 32]).unwrap());
		// Node keys are chosen so that the byte order of the node ids is *not* the index order
		// (both "source < target" polarities occur on payer- and payee-adjacent channels).
		let node: Vec<PublicKey> = [11u8, 7, 13, 12, 15, 16].iter().map(|b| pk(*b)).collect();
		let node_id = node.iter().map(NodeId::from_pubkey).collect();
		let btc1 = pk(101);
		let btc2 = pk(102);
		let funding_script = make_funding_redeemscript(&btc1, &btc2).to_p2wsh();
		Keys {
			node,
			node_id,
			btc1,
			btc2,
			funding_script,
			blinding: (0..4).map(|i| pk(60 + i)).collect(),
			blinded_node: pk(77),
			chain: ChainHash::using_genesis_block(Network::Testnet),
		}
	})
}

pub fn node_index(pk: &PublicKey) -> Option<u8> {
	keys().node.iter().position(|k| k == pk).map(|i| i as u8)
}

struct OneUtxo {
	value_sat: u64,
}
impl UtxoLookup for OneUtxo {
	fn get_utxo(&self, _chain: &ChainHash, _scid: u64, _n: Arc<Notifier>) -> UtxoResult {
		UtxoResult::Sync(Ok(TxOut {
			value: Amount::from_sat(self.value_sat),
			script_pubkey: keys().funding_script.clone(),
		}))
	}
}

/// Populates a real `NetworkGraph` through its public gossip entry points: an unsigned
/// `channel_announcement` per channel (with a UTXO lookup supplying the capacity, or without one
/// for `Cap::Unknown`), then an unsigned `channel_update` per direction that has a policy.
pub fn build_network_graph(g: &Graph) -> Result<NetworkGraph<Nop>, String> {
	let k = keys();
	let ng = NetworkGraph::new(Network::Testnet, Nop);
	for (i, c) in g.chans.iter().enumerate() {
		let scid = Graph::scid(i);
		let (ida, idb) = (k.node_id[c.a as usize], k.node_id[c.b as usize]);
		let a_is_one = ida < idb;
		let (n1, n2) = if a_is_one { (ida, idb) } else { (idb, ida) };
		let ann = UnsignedChannelAnnouncement {
			features: ChannelFeatures::empty(),
			chain_hash: k.chain,
			short_channel_id: scid,
			node_id_1: n1,
			node_id_2: n2,
			bitcoin_key_1: NodeId::from_pubkey(&k.btc1),
			bitcoin_key_2: NodeId::from_pubkey(&k.btc2),
			excess_data: Vec::new(),
		};
		let r = match c.cap.sats() {
			Some(s) => ng.update_channel_from_unsigned_announcement(&ann, &Some(&OneUtxo { value_sat: s })),
			None => ng.update_channel_from_unsigned_announcement(&ann, &None::<&OneUtxo>),
		};
		r.map_err(|e| format!("announcement {} rejected: {}", scid, e.err))?;
		for (pol, from_a) in [(c.pol_ab, true), (c.pol_ba, false)] {
			if let Some(v) = pol.vals(c.cap) {
				let from_one = from_a == a_is_one;
				let upd = UnsignedChannelUpdate {
					chain_hash: k.chain,
					short_channel_id: scid,
					timestamp: 100,
					message_flags: 1,
					channel_flags: (if from_one { 0 } else { 1 }) | (if v.enabled { 0 } else { 2 }),
					cltv_expiry_delta: v.cltv,
					htlc_minimum_msat: v.min,
					htlc_maximum_msat: v.max,
					fee_base_msat: v.base,
					fee_proportional_millionths: v.ppm,
					excess_data: Vec::new(),
				};
				ng.update_channel_unsigned(&upd).map_err(|e| format!("update {} rejected: {}", scid, e.err))?;
			}
		}
	}
	Ok(ng)
}

#[allow(deprecated)]
pub fn channel_details(f: &FirstHop) -> ChannelDetails {
	let k = keys();
	ChannelDetails {
		channel_id: ChannelId::new_zero(),
		counterparty: ChannelCounterparty {
			features: InitFeatures::empty(),
			node_id: k.node[f.to as usize],
			unspendable_punishment_reserve: 0,
			forwarding_info: None,
			outbound_htlc_minimum_msat: None,
			outbound_htlc_maximum_msat: None,
		},
		funding_txo: Some(OutPoint { txid: bitcoin::Txid::from_slice(&[0; 32]).unwrap(), index: 0 }),
		funding_redeem_script: None,
		channel_type: None,
		short_channel_id: Some(f.scid),
		outbound_scid_alias: f.alias,
		inbound_scid_alias: None,
		channel_value_satoshis: 0,
		user_channel_id: 0,
		outbound_capacity_msat: f.limit,
		next_outbound_htlc_limit_msat: f.limit,
		next_outbound_htlc_minimum_msat: f.min,
		next_splice_out_maximum_sat: f.limit / 1000,
		inbound_capacity_msat: 42,
		unspendable_punishment_reserve: None,
		confirmations_required: None,
		confirmations: None,
		force_close_spend_delay: None,
		is_outbound: true,
		is_channel_ready: true,
		is_usable: true,
		is_announced: f.announced,
		inbound_htlc_minimum_msat: None,
		inbound_htlc_maximum_msat: None,
		config: None,
		feerate_sat_per_1000_weight: None,
		channel_shutdown_state: Some(ChannelShutdownState::NotShuttingDown),
		pending_inbound_htlcs: Vec::new(),
		pending_outbound_htlcs: Vec::new(),
		current_dust_exposure_msat: None,
		splice_details: None,
	}
}

pub fn route_params(q: &Query) -> RouteParameters {
	let k = keys();
	let mut pp = match &q.tail {
		Tail::Clear { hints } => {
			let mut pp = PaymentParameters::from_node_id(k.node[PAYEE as usize], FINAL_CLTV);
			if q.mpp_features {
				let mut f = Bolt11InvoiceFeatures::empty();
				f.set_variable_length_onion_required();
				f.set_payment_secret_required();
				f.set_basic_mpp_optional();
				pp = pp.with_bolt11_features(f).unwrap();
			}
			let hints: Vec<RouteHint> = hints
				.iter()
				.map(|h| {
					RouteHint(
						h.iter()
							.map(|x| RouteHintHop {
								src_node_id: k.node[x.src as usize],
								short_channel_id: x.scid,
								fees: RoutingFees { base_msat: x.base, proportional_millionths: x.ppm },
								cltv_expiry_delta: x.cltv,
								htlc_minimum_msat: x.min,
								htlc_maximum_msat: x.max,
							})
							.collect(),
					)
				})
				.collect();
			pp.with_route_hints(hints).unwrap()
		},
		Tail::Blinded { paths } => {
			let bps: Vec<BlindedPaymentPath> = paths
				.iter()
				.enumerate()
				.map(|(i, b)| {
					let hop = || BlindedHop { blinded_node_id: k.blinded_node, encrypted_payload: Vec::new() };
					BlindedPaymentPath::from_blinded_path_and_payinfo(
						k.node[b.intro as usize],
						k.blinding[i],
						(0..b.hops).map(|_| hop()).collect(),
						BlindedPayInfo {
							fee_base_msat: b.base,
							fee_proportional_millionths: b.ppm,
							cltv_expiry_delta: b.cltv,
							htlc_minimum_msat: b.min,
							htlc_maximum_msat: b.max,
							features: BlindedHopFeatures::empty(),
						},
					)
				})
				.collect();
			let mut pp = PaymentParameters::blinded(bps);
			if q.mpp_features {
				let mut f = Bolt12InvoiceFeatures::empty();
				f.set_basic_mpp_optional();
				pp = pp.with_bolt12_features(f).unwrap();
			}
			pp
		},
	};
	pp.max_total_cltv_expiry_delta = q.max_cltv;
	pp.max_path_count = q.max_paths;
	pp.max_path_length = q.max_len;
	pp.max_channel_saturation_power_of_half = q.sat_pow;
	pp.previously_failed_channels = q.failed.clone();
	pp.previously_failed_blinded_path_idxs = q.failed_blinded.clone();
	RouteParameters { payment_params: pp, final_value_msat: q.amount, max_total_routing_fee_msat: q.fee_limit }
}

/// Own `ScoreLookUp`: a fixed penalty per short channel id plus a term that depends on the usage
/// the router reports (so that in-flight HTLCs and MPP bookkeeping influence path choice).
pub struct PerChanScorer {
	pub rot: u8,
}
const PENALTIES: [u64; 4] = [0, 3_000, 500, 20_000];
impl ScoreLookUp for PerChanScorer {
	type ScoreParams = ();
	fn channel_penalty_msat(&self, cand: &CandidateRouteHop, usage: ChannelUsage, _p: &()) -> u64 {
		let scid = cand.globally_unique_short_channel_id().unwrap_or(7);
		let mut p = PENALTIES[((scid + self.rot as u64) % 4) as usize];
		let cap = match usage.effective_capacity {
			EffectiveCapacity::Infinite => u64::MAX,
			c => c.as_msat(),
		};
		if usage.amount_msat.saturating_add(usage.inflight_htlc_msat) > cap / 2 {
			p += 7_000;
		}
		p
	}
}

/// Plain copy of a returned route.
#[derive(Clone, Debug)]
pub struct RHop {
	/// node index of the hop's pubkey (None: not one of the enumerated nodes)
	pub node: Option<u8>,
	pub scid: u64,
	pub fee_msat: u64,
	pub cltv: u32,
}
#[derive(Clone, Debug)]
pub struct RTail {
	/// index into `Tail::Blinded::paths` identified by blinding point (None: unknown)
	pub hint: Option<usize>,
	pub n_hops: usize,
	pub final_value_msat: u64,
	pub trampoline_hops: usize,
}
#[derive(Clone, Debug)]
pub struct RPath {
	pub hops: Vec<RHop>,
	pub tail: Option<RTail>,
}
#[derive(Clone, Debug)]
pub struct RRoute {
	pub paths: Vec<RPath>,
}

pub fn copy_route(r: &Route) -> RRoute {
	let k = keys();
	RRoute {
		paths: r
			.paths
			.iter()
			.map(|p| RPath {
				hops: p
					.hops
					.iter()
					.map(|h| RHop {
						node: node_index(&h.pubkey),
						scid: h.short_channel_id,
						fee_msat: h.fee_msat,
						cltv: h.cltv_expiry_delta,
					})
					.collect(),
				tail: p.blinded_tail.as_ref().map(|t| RTail {
					hint: k.blinding.iter().position(|b| *b == t.blinding_point),
					n_hops: t.hops.len(),
					final_value_msat: t.final_value_msat,
					trampoline_hops: t.trampoline_hops.len(),
				}),
			})
			.collect(),
	}
}

impl RRoute {
	pub fn to_json(&self) -> mc_common::Value {
		use mc_common::json;
		mc_common::Value::Array(
			self.paths
				.iter()
				.map(|p| {
					json!({
						"hops": p.hops.iter().map(|h| json!({"node": h.node, "scid": h.scid, "fee_msat": h.fee_msat, "cltv": h.cltv})).collect::<Vec<_>>(),
						"tail": p.tail.as_ref().map(|t| json!({"hint": t.hint, "hops": t.n_hops, "final_value_msat": t.final_value_msat})),
					})
				})
				.collect(),
		)
	}
}

/// Runs the real router on the real graph. `Err` is the router's error string.
pub fn run_query(ng: &NetworkGraph<Nop>, q: &Query) -> Result<RRoute, &'static str> {
	let k = keys();
	let params = route_params(q);
	let details: Option<Vec<ChannelDetails>> = q.first_hops.as_ref().map(|v| v.iter().map(channel_details).collect());
	let refs: Option<Vec<&ChannelDetails>> = details.as_ref().map(|v| v.iter().collect());
	let first_hops: Option<&[&ChannelDetails]> = refs.as_deref();
	let seed = [q.seed; 32];
	let payer = &k.node[PAYER as usize];
	let mut inflight = InFlightHtlcs::new();
	if let Some(i) = &q.inflight {
		inflight.add_inflight_htlc(&k.node_id[i.from as usize], &k.node_id[i.to as usize], i.scid, i.amount);
	}
	let res = match q.scorer {
		Scorer::Fixed(p) => {
			let s = FixedPenaltyScorer::with_penalty(p);
			if q.inflight.is_some() {
				let w = ScorerAccountingForInFlightHtlcs::new(&s, &inflight);
				find_route(payer, &params, ng, first_hops, &Nop, &w, &(), &seed)
			} else {
				find_route(payer, &params, ng, first_hops, &Nop, &s, &(), &seed)
			}
		},
		Scorer::PerChan { rot } => {
			let s = PerChanScorer { rot };
			if q.inflight.is_some() {
				let w = ScorerAccountingForInFlightHtlcs::new(&s, &inflight);
				find_route(payer, &params, ng, first_hops, &Nop, &w, &(), &seed)
			} else {
				find_route(payer, &params, ng, first_hops, &Nop, &s, &(), &seed)
			}
		},
		Scorer::Prob => {
			let s = ProbabilisticScorer::new(ProbabilisticScoringDecayParameters::default(), ng, Nop);
			let fp = ProbabilisticScoringFeeParameters::default();
			let w = ScorerAccountingForInFlightHtlcs::new(&s, &inflight);
			find_route(payer, &params, ng, first_hops, &Nop, &w, &fp, &seed)
		},
	};
	res.map(|r| copy_route(&r))
}
