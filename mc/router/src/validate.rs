//! Independent validator for a returned route (property C16, first two sentences). It sees only
//! the plain-data model (graph, query, directed edge list) and a plain copy of the route; it uses
//! no router code.
//!
//! Conventions taken from the documentation of `RouteHop` / `Path`:
//! * `hops[i].short_channel_id` is the channel used to reach `hops[i].pubkey` from the previous
//!   node (the payer for i = 0);
//! * `hops[i].fee_msat` (i not last) is the fee the node `hops[i].pubkey` keeps for forwarding over
//!   the *next* hop's channel; the last hop's `fee_msat` is the amount delivered (or, with a blinded
//!   tail, the fee for the whole blinded path, the amount delivered being
//!   `blinded_tail.final_value_msat`);
//! * hence the amount carried by channel i is the sum of `fee_msat` over hops i.. (plus the final
//!   value if blinded).
use crate::build::RRoute;
use crate::model::*;

#[derive(Clone, Debug)]
pub struct Fail {
	pub oracle: &'static str,
	pub detail: String,
}

#[derive(Clone, Debug, Default)]
pub struct Info {
	pub raised_to_minimum: bool,
	/// a raise to a later hop's minimum pushed an earlier hop above its limit (the allowed exception)
	pub exemption_used: bool,
	pub overpaid_recipient: bool,
	pub used_first_hop: bool,
	pub used_hint: bool,
	pub used_blinded: bool,
	pub shared_channel: bool,
	/// informational only (not part of the property): a hop's CLTV delta below the next channel's policy
	pub cltv_below_policy: bool,
	pub total_fee: u128,
}

struct PathView {
	edges: Vec<usize>,
	/// actual amount carried per edge
	amt: Vec<u128>,
	value: u128,
}

fn fail(v: &mut Vec<Fail>, oracle: &'static str, detail: String) {
	v.push(Fail { oracle, detail });
}

pub fn allowed_paths(q: &Query) -> usize {
	if q.max_paths >= 2 && q.mpp_features {
		q.max_paths as usize
	} else {
		1
	}
}

pub fn validate(q: &Query, edges: &[Edge], r: &RRoute) -> (Vec<Fail>, Info) {
	let mut fails = Vec::new();
	let mut info = Info::default();

	if r.paths.is_empty() {
		fail(&mut fails, "empty-route", "route has no paths".into());
		return (fails, info);
	}
	if r.paths.len() > allowed_paths(q) {
		fail(
			&mut fails,
			"path-count",
			format!("{} paths returned, {} allowed", r.paths.len(), allowed_paths(q)),
		);
	}

	let mut views: Vec<PathView> = Vec::new();
	let mut structure_ok = true;
	for (pi, p) in r.paths.iter().enumerate() {
		if p.hops.is_empty() {
			fail(&mut fails, "empty-path", format!("path {} has no hops", pi));
			structure_ok = false;
			continue;
		}
		if p.hops.len() > q.max_len as usize {
			fail(
				&mut fails,
				"path-length",
				format!("path {} has {} hops, max_path_length {}", pi, p.hops.len(), q.max_len),
			);
		}
		let cltv_total: u64 = p.hops.iter().map(|h| h.cltv as u64).sum();
		if cltv_total > q.max_cltv as u64 {
			fail(
				&mut fails,
				"cltv-limit",
				format!("path {} total CLTV delta {} > max_total_cltv_expiry_delta {}", pi, cltv_total, q.max_cltv),
			);
		}
		for h in &p.hops {
			if q.failed.contains(&h.scid) {
				fail(&mut fails, "failed-channel-used", format!("path {} uses previously failed channel {}", pi, h.scid));
			}
		}

		// Resolve the chain of channels.
		let mut cur = PAYER;
		let mut chain: Vec<usize> = Vec::new();
		let mut ok = true;
		for (i, h) in p.hops.iter().enumerate() {
			let next = match h.node {
				Some(n) => n,
				None => {
					fail(&mut fails, "not-connected", format!("path {} hop {} leads to an unknown node", pi, i));
					ok = false;
					break;
				},
			};
			let first_from_hints = i == 0 && q.first_hops.is_some();
			let cand = edges.iter().position(|e| {
				!e.virtual_hop
					&& (e.scid == h.scid || matches!(e.kind, EdgeKind::FirstHop(fi) if q.first_hops.as_ref().map_or(false, |f| f[fi].alias == Some(h.scid))))
					&& e.from == cur
					&& e.to == next && match e.kind {
					EdgeKind::FirstHop(_) => first_from_hints,
					_ => !first_from_hints,
				}
			});
			match cand {
				Some(ei) => {
					let e = &edges[ei];
					if !e.enabled {
						fail(
							&mut fails,
							"disabled-channel",
							format!("path {} hop {} uses channel {} in a disabled direction {}->{}", pi, i, h.scid, cur, next),
						);
					}
					match e.kind {
						EdgeKind::FirstHop(_) => info.used_first_hop = true,
						EdgeKind::Hint(..) => info.used_hint = true,
						_ => {},
					}
					chain.push(ei);
				},
				None => {
					fail(
						&mut fails,
						"not-connected",
						format!(
							"path {} hop {}: no usable channel {} from node {} to node {}{}",
							pi,
							i,
							h.scid,
							cur,
							next,
							if first_from_hints { " among the supplied first hops" } else { " with a known policy" }
						),
					);
					ok = false;
					break;
				},
			}
			cur = next;
		}
		if !ok {
			structure_ok = false;
			continue;
		}
		let value: u128;
		match (&p.tail, &q.tail) {
			(None, Tail::Clear { .. }) => {
				if cur != PAYEE {
					fail(&mut fails, "wrong-destination", format!("path {} ends at node {}, not the payee", pi, cur));
					structure_ok = false;
					continue;
				}
				value = p.hops.last().unwrap().fee_msat as u128;
			},
			(Some(t), Tail::Blinded { paths }) => {
				let hint = t.hint.and_then(|i| paths.get(i).map(|b| (i, b)));
				match hint {
					Some((i, b)) if b.intro == cur && b.hops as usize == t.n_hops && t.trampoline_hops == 0 => {
						if q.failed_blinded.contains(&(i as u64)) {
							fail(&mut fails, "failed-channel-used", format!("path {} uses previously failed blinded path {}", pi, i));
						}
						let ei = edges.iter().position(|e| e.kind == EdgeKind::Blinded(i)).unwrap();
						chain.push(ei);
						info.used_blinded = true;
						value = t.final_value_msat as u128;
					},
					_ => {
						fail(
							&mut fails,
							"wrong-destination",
							format!("path {} ends at node {} with a blinded tail that matches no supplied blinded path there", pi, cur),
						);
						structure_ok = false;
						continue;
					},
				}
			},
			_ => {
				fail(&mut fails, "wrong-destination", format!("path {}: blinded tail presence does not match the payee kind", pi));
				structure_ok = false;
				continue;
			},
		}

		// Amount carried by each edge.
		let n_real = p.hops.len();
		let mut amt = vec![0u128; chain.len()];
		let mut acc: u128 = if p.tail.is_some() { value } else { 0 };
		if p.tail.is_some() {
			amt[n_real] = value;
		}
		for i in (0..n_real).rev() {
			acc += p.hops[i].fee_msat as u128;
			amt[i] = acc;
		}

		// Informational: CLTV delta per hop vs. policy of the next channel.
		for i in 0..n_real {
			let need = if i + 1 < chain.len() { edges[chain[i + 1]].cltv } else { final_cltv(q) };
			if p.hops[i].cltv < need {
				info.cltv_below_policy = true;
			}
		}

		views.push(PathView { edges: chain, amt, value });
	}

	// Delivered amount / superfluous part / total fee – need only the values.
	if structure_ok {
		let total: u128 = views.iter().map(|v| v.value).sum();
		let want = q.amount as u128;
		if total < want {
			fail(&mut fails, "underdelivery", format!("paths deliver {} msat, {} requested", total, want));
		}
		if total > want {
			info.overpaid_recipient = true;
		}
		if views.len() > 1 {
			for (pi, v) in views.iter().enumerate() {
				if total - v.value >= want {
					fail(
						&mut fails,
						"superfluous-path",
						format!("path {} ({} msat) is not needed: the others already deliver {} >= {}", pi, v.value, total - v.value, want),
					);
				}
			}
		}
		let sent: u128 = views.iter().map(|v| v.amt[0]).sum();
		let total_fee = sent.saturating_sub(want);
		info.total_fee = total_fee;
		if let Some(limit) = q.fee_limit {
			if total_fee > limit as u128 {
				fail(
					&mut fails,
					"fee-limit",
					format!("total fees (incl. overpayment) {} msat > max_total_routing_fee_msat {}", total_fee, limit),
				);
			}
		}

		// Per-hop minimum, forwarding fees, and the "raised to a minimum" bookkeeping.
		let overpay = total.saturating_sub(want);
		let mut joint: Vec<u128> = vec![0; edges.len()];
		let mut joint_actual: Vec<u128> = vec![0; edges.len()];
		let mut users: Vec<u32> = vec![0; edges.len()];
		for (pi, v) in views.iter().enumerate() {
			let n = v.edges.len();
			let mut excess = vec![0u128; n]; // excess[e]: what the node after edge e keeps beyond its due
			let mut justified = vec![false; n];
			for e in 0..n {
				let ed = &edges[v.edges[e]];
				if v.amt[e] < ed.min as u128 {
					fail(
						&mut fails,
						"below-htlc-minimum",
						format!("path {} hop {} carries {} msat over channel {} whose minimum is {}", pi, e, v.amt[e], ed.scid, ed.min),
					);
				}
				if e + 1 < n {
					let nx = &edges[v.edges[e + 1]];
					let paid = v.amt[e] - v.amt[e + 1];
					let due = nx.fee_for(v.amt[e + 1]);
					if paid < due {
						fail(
							&mut fails,
							"fee-underpaid",
							format!(
								"path {}: node {} forwards {} msat over channel {} (base {}, ppm {}) and is paid {} msat, policy requires {}",
								pi, nx.from, v.amt[e + 1], nx.scid, nx.base, nx.ppm, paid, due
							),
						);
					} else {
						excess[e] = paid - due;
						justified[e] = excess[e] > 0 && v.amt[e] == ed.min as u128;
					}
				}
			}
			// Un-raised amounts: what each edge would carry had no *later* hop been raised to its minimum.
			let mut u = vec![0u128; n];
			let last = n - 1;
			let last_ed = &edges[v.edges[last]];
			let last_raise = if overpay > 0 && v.amt[last] == last_ed.min as u128 {
				overpay.min(v.amt[last].saturating_sub(1))
			} else {
				0
			};
			if last_raise > 0 || justified.iter().any(|j| *j) {
				info.raised_to_minimum = true;
			}
			u[last] = v.amt[last] - last_raise;
			for e in (0..last).rev() {
				let nx = &edges[v.edges[e + 1]];
				u[e] = u[e + 1] + nx.fee_for(u[e + 1]) + if justified[e] { 0 } else { excess[e] };
			}
			for e in 0..n {
				// The hop's own raise (to its own minimum) is not exempt; only later hops' raises are.
				// (never more than what is actually carried: with an underpaid fee, already reported
				// above, the recomputed amounts can exceed the real ones)
				let own = if e == last || justified[e] { v.amt[e] } else { u[e].min(v.amt[e]) };
				joint[v.edges[e]] += own;
				joint_actual[v.edges[e]] += v.amt[e];
				users[v.edges[e]] += 1;
			}
		}
		for (ei, ed) in edges.iter().enumerate() {
			if users[ei] > 1 {
				info.shared_channel = true;
			}
			if users[ei] > 0 && joint[ei] > ed.max as u128 {
				fail(
					&mut fails,
					"over-maximum",
					format!(
						"channel {} direction {}->{} carries {} msat over {} path(s) (not counting amounts raised for later minimums; {} with them), limit {}",
						ed.scid, ed.from, ed.to, joint[ei], users[ei], joint_actual[ei], ed.max
					),
				);
			} else if users[ei] > 0 && joint_actual[ei] > ed.max as u128 {
				info.exemption_used = true;
			}
		}
	}
	(fails, info)
}
