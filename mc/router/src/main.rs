//! mc-router: bounded-exhaustive check of property C16 ("returned routes are valid for the graph and
//! for the caller's constraints") against the real `lightning::routing::router::find_route` on a
//! real `NetworkGraph`.
mod brute;
mod build;
mod enumerate;
mod model;
mod validate;

use build::RRoute;
use enumerate::{Chunk, Family};
use mc_common::cli::{self, Tier};
use mc_common::evidence::{Evidence, Level};
use mc_common::findings::{self, Violation};
use mc_common::{json, par, Value};
use model::*;
use std::collections::BTreeMap;
use std::sync::atomic::{AtomicBool, Ordering};
use std::time::{Duration, Instant};

const ID: &str = "C16";

#[derive(Clone, Debug)]
struct Fired {
	oracle: &'static str,
	/// sub-classification (completeness only): which kind of search failure this is
	class: String,
	detail: String,
}

fn slug(e: &str) -> &'static str {
	match e {
		"Failed to find a path to the given destination" => "no-path",
		"Failed to find a sufficient route to the given destination" => "insufficient",
		"Failed to find route that adheres to the maximum total fee limit" => "fee-limit",
		_ => "other-error",
	}
}

struct Outcome {
	result: Result<RRoute, String>,
	panicked: bool,
	fired: Vec<Fired>,
	info: validate::Info,
	feasible: Option<brute::Feasible>,
	completeness_applied: bool,
}

/// One evaluation: real router + validator + completeness oracle.
fn evaluate(g: &Graph, ng: &lightning::routing::gossip::NetworkGraph<build::Nop>, q: &Query) -> Outcome {
	let edges = model::edges(g, q);
	let mut fired = Vec::new();
	let mut info = validate::Info::default();
	let mut panicked = false;
	let result: Result<RRoute, String> = match par::guarded(|| build::run_query(ng, q)) {
		Ok(Ok(r)) => Ok(r),
		Ok(Err(e)) => Err(e.to_string()),
		Err(p) => {
			panicked = true;
			fired.push(Fired { oracle: "no-panic", class: String::new(), detail: format!("find_route panicked: {}", p) });
			Err(format!("panic: {}", p))
		},
	};
	if let Ok(r) = &result {
		let (fails, i) = validate::validate(q, &edges, r);
		info = i;
		for f in fails {
			fired.push(Fired { oracle: f.oracle, class: String::new(), detail: f.detail });
		}
	}
	let feasible = brute::feasible_single_path(g, q, &edges);
	let mut completeness_applied = false;
	if let Some(f) = &feasible {
		if brute::completeness_applies(q, f) {
			completeness_applied = true;
			if let (Err(e), false) = (&result, panicked) {
				let path: Vec<String> =
					f.edges.iter().map(|i| format!("{}:{}->{}", edges[*i].scid, edges[*i].from, edges[*i].to)).collect();
				// Classification by features of the *input* (the most comfortable feasible path), so
				// that each kind of search weakness has one stable identity.
				let mode = if validate::allowed_paths(q) == 1 { "single-path-search" } else { "multi-path-search" };
				let class = if f.min_lifted_by_fees {
					"a-minimum-is-met-only-through-later-fees".to_string()
				} else if f.exact_fit {
					"exact-fit-within-rounding-margin-of-a-limit".to_string()
				} else {
					format!(
						"slack/{}/{}/{}{}{}",
						mode,
						slug(e),
						if q.scorer == Scorer::Fixed(0) { "zero-penalty-scorer" } else { "penalising-scorer" },
						if q.sat_pow != 0 { "/saturation-share-set" } else { "" },
						if q.max_len < 19 { "/path-length-limit-set" } else { "" }
					)
				};
				fired.push(Fired {
					oracle: "completeness",
					class,
					detail: format!(
						"find_route failed (\"{}\") although the single path [{}] carries {} msat within every limit (total fee {} msat, no fee cap, default CLTV budget)",
						e, path.join(" "), q.amount, f.total_fee
					),
				});
			}
		}
	}
	Outcome { result, panicked, fired, info, feasible, completeness_applied }
}

fn eval_fresh(g: &Graph, q: &Query) -> Result<Outcome, String> {
	let ng = build::build_network_graph(g)?;
	Ok(evaluate(g, &ng, q))
}

/// Greedy shrinking: simplify graph and query while the same oracle still fires.
fn shrink(g: &Graph, q: &Query, oracle: &str, class: &str) -> (Graph, Query, String) {
	let fires = |g: &Graph, q: &Query| -> Option<String> {
		match eval_fresh(g, q) {
			Ok(o) => o.fired.iter().find(|f| f.oracle == oracle && f.class == class).map(|f| f.detail.clone()),
			Err(_) => None,
		}
	};
	let mut g = g.clone();
	let mut q = q.clone();
	let mut detail = fires(&g, &q).unwrap_or_default();
	loop {
		let mut progressed = false;
		let mut cands: Vec<(Graph, Query)> = Vec::new();
		// query simplifications
		let mut push_q = |f: &dyn Fn(&mut Query)| {
			let mut nq = q.clone();
			f(&mut nq);
			if nq != q {
				cands.push((g.clone(), nq));
			}
		};
		push_q(&|x| x.scorer = Scorer::Fixed(0));
		push_q(&|x| x.inflight = None);
		push_q(&|x| x.sat_pow = 0);
		push_q(&|x| x.failed.clear());
		push_q(&|x| x.failed_blinded.clear());
		push_q(&|x| x.fee_limit = None);
		push_q(&|x| x.max_cltv = 1008);
		push_q(&|x| x.max_len = 19);
		push_q(&|x| x.seed = 42);
		push_q(&|x| x.first_hops = None);
		push_q(&|x| x.tail = Tail::Clear { hints: Vec::new() });
		push_q(&|x| x.max_paths = 1);
		push_q(&|x| {
			if let Some(f) = &mut x.first_hops {
				if f.len() > 1 {
					f.pop();
				}
			}
		});
		// graph simplifications (short channel ids stay stable: only the last channel is ever dropped)
		if let Some(last) = g.chans.last() {
			let scid = Graph::scid(g.chans.len() - 1);
			let referenced = q.failed.contains(&scid)
				|| q.inflight.as_ref().map_or(false, |i| i.scid == scid)
				|| q.first_hops.as_ref().map_or(false, |f| f.iter().any(|h| h.scid == scid));
			if !referenced && g.chans.len() > 1 {
				let _ = last;
				let mut ng = g.clone();
				ng.chans.pop();
				cands.push((ng, q.clone()));
			}
		}
		for i in 0..g.chans.len() {
			for (ab, to) in [(true, Pol::NoUpdate), (false, Pol::NoUpdate), (true, Pol::Free), (false, Pol::Free)] {
				let mut ng = g.clone();
				let slot = if ab { &mut ng.chans[i].pol_ab } else { &mut ng.chans[i].pol_ba };
				if *slot == to || (*slot == Pol::NoUpdate) {
					continue;
				}
				*slot = to;
				cands.push((ng, q.clone()));
			}
			if g.chans[i].cap != Cap::Small {
				let mut ng = g.clone();
				ng.chans[i].cap = Cap::Small;
				cands.push((ng, q.clone()));
			}
		}
		for (cg, cq) in cands {
			if let Some(d) = fires(&cg, &cq) {
				g = cg;
				q = cq;
				detail = d;
				progressed = true;
				break;
			}
		}
		if !progressed {
			break;
		}
	}
	(g, q, detail)
}

#[derive(Default, Clone)]
struct FamStats {
	graphs: u64,
	queries: u64,
	routes: u64,
	refused: u64,
}

#[derive(Default)]
struct Stats {
	fam: BTreeMap<usize, FamStats>,
	c: BTreeMap<&'static str, u64>,
	refusal_reasons: BTreeMap<String, u64>,
	/// first firing per oracle in this chunk
	fired: Vec<(Graph, Query, Fired)>,
	fired_total: BTreeMap<&'static str, u64>,
	fired_classes: BTreeMap<String, u64>,
	samples: Vec<Value>,
	skipped: bool,
}

impl Stats {
	fn bump(&mut self, k: &'static str) {
		*self.c.entry(k).or_insert(0) += 1;
	}
}

fn run_chunk(ch: &Chunk, fams: &[Family], thorough: bool, stop: &AtomicBool, deadline: Instant) -> Stats {
	let mut st = Stats::default();
	if stop.load(Ordering::Relaxed) || Instant::now() >= deadline {
		stop.store(true, Ordering::Relaxed);
		st.skipped = true;
		return st;
	}
	let fam = &fams[ch.family];
	let overflow = fam.qset == enumerate::QSet::Overflow;
	for idx in ch.lo..ch.hi {
		let g = fam.graph(&ch.ms, &ch.caps, idx);
		let ng = match build::build_network_graph(&g) {
			Ok(n) => n,
			Err(e) => cli::die(&format!("harness: graph {} rejected by NetworkGraph: {}", g.compact(), e)),
		};
		let qs = enumerate::queries(&g, fam, thorough);
		let fs = st.fam.entry(ch.family).or_default();
		fs.graphs += 1;
		fs.queries += qs.len() as u64;
		let mut routes = 0u64;
		let mut refused = 0u64;
		for q in &qs {
			let o = evaluate(&g, &ng, q);
			match &o.result {
				Ok(r) => {
					routes += 1;
					st.bump("routes");
					if r.paths.len() >= 2 {
						st.bump("routes_mpp");
					}
					if o.info.used_first_hop {
						st.bump("routes_via_first_hop");
					}
					if o.info.used_hint {
						st.bump("routes_via_hint");
					}
					if o.info.used_blinded {
						st.bump("routes_via_blinded_tail");
					}
					if o.info.shared_channel {
						st.bump("routes_sharing_a_channel");
					}
					if o.info.raised_to_minimum {
						st.bump("routes_raised_to_a_minimum");
					}
					if o.info.exemption_used {
						st.bump("routes_using_minimum_exemption");
					}
					if o.info.overpaid_recipient {
						st.bump("routes_overpaying_recipient");
					}
					if o.info.cltv_below_policy {
						st.bump("info_cltv_below_policy");
					}
					if q.fee_limit.is_some() {
						st.bump("routes_under_fee_limit");
					}
					if q.max_cltv != 1008 {
						st.bump("routes_under_binding_cltv_limit");
					}
					if q.max_len != 19 {
						st.bump("routes_under_binding_length_limit");
					}
					if !q.failed.is_empty() || !q.failed_blinded.is_empty() {
						st.bump("routes_avoiding_failed_channel");
					}
					if q.inflight.is_some() {
						st.bump("routes_with_inflight");
					}
					if overflow {
						st.bump("overflow_routes");
						if o.info.total_fee > u32::MAX as u128 {
							st.bump("overflow_routes_paying_extreme_fee");
						}
					}
					if r.paths.iter().any(|p| p.hops.len() >= 3) {
						st.bump("routes_3plus_hops");
					}
					if st.samples.len() < 2 && (r.paths.len() >= 2 || st.samples.is_empty()) {
						st.samples.push(json!({"graph": g.compact(), "query": q.to_json(), "route": r.to_json()}));
					}
				},
				Err(e) => {
					if !o.panicked {
						refused += 1;
						st.bump("refused");
						*st.refusal_reasons.entry(e.clone()).or_insert(0) += 1;
						match &o.feasible {
							None => st.bump("refused_no_single_path"),
							Some(f) if !f.strict && q.fee_limit.is_none() && q.max_cltv == 1008 => {
								// a single path would do, but only beyond the saturation share / u64 fee arithmetic
								if q.sat_pow != 0 {
									st.bump("refused_single_path_only_above_saturation_share");
								} else {
									st.bump("refused_single_path_needs_fee_product_over_u64");
								}
							},
							_ => {},
						}
						if overflow {
							st.bump("overflow_refused");
						}
					}
				},
			}
			if o.feasible.is_some() {
				st.bump("single_path_feasible");
			}
			if o.completeness_applied {
				st.bump("completeness_obligations");
			}
			for f in o.fired {
				*st.fired_total.entry(f.oracle).or_insert(0) += 1;
				*st.fired_classes.entry(format!("{}:{}", f.oracle, f.class)).or_insert(0) += 1;
				if !st.fired.iter().any(|(_, _, x)| x.oracle == f.oracle && x.class == f.class) {
					st.fired.push((g.clone(), q.clone(), f));
				}
			}
		}
		let fs = st.fam.get_mut(&ch.family).unwrap();
		fs.routes += routes;
		fs.refused += refused;
	}
	st
}

fn replay(path: &std::path::Path) -> i32 {
	let text = std::fs::read_to_string(path).unwrap_or_else(|e| cli::die(&format!("cannot read {}: {}", path.display(), e)));
	let v: Value = mc_common::serde_json::from_str(&text).unwrap_or_else(|e| cli::die(&format!("bad replay json: {}", e)));
	let rp = if v.get("replay").is_some() { &v["replay"] } else { &v };
	let g = Graph::from_json(&rp["graph"]).unwrap_or_else(|| cli::die("replay: bad graph"));
	let q = Query::from_json(&rp["query"]).unwrap_or_else(|| cli::die("replay: bad query"));
	if std::env::var("MC_ROUTER_VERBOSE").is_ok() {
		build::VERBOSE.store(true, Ordering::Relaxed);
		par::set_quiet(false);
	}
	let o = eval_fresh(&g, &q).unwrap_or_else(|e| cli::die(&format!("replay: {}", e)));
	println!("graph: {}", g.compact());
	println!("query: {}", q.compact());
	match &o.result {
		Ok(r) => println!("find_route: Ok {}", r.to_json()),
		Err(e) => println!("find_route: Err \"{}\"", e),
	}
	match &o.feasible {
		Some(f) => println!("brute force: a single path exists (edges {:?}, fee {} msat, cltv {})", f.edges, f.total_fee, f.cltv),
		None => println!("brute force: no single path carries the amount"),
	}
	if o.fired.is_empty() {
		println!("REPLAY: no violation");
		0
	} else {
		for f in &o.fired {
			println!("REPLAY: VIOLATION property={} oracle={} {}", ID, f.oracle, f.detail);
		}
		1
	}
}

fn main() {
	let args = cli::parse();
	par::install_quiet_panic_hook();
	if let Some(p) = &args.replay {
		std::process::exit(replay(p));
	}
	if args.property != ID {
		cli::die(&format!("mc-router only implements {}", ID));
	}
	let thorough = args.tier == Tier::Thorough;
	let mut fams = enumerate::families(thorough);
	if let Some(only) = args.opt("family") {
		fams.retain(|f| f.name.contains(only));
		if fams.is_empty() {
			cli::die("no family matches --opt family=");
		}
	}
	let chunk_graphs = args.opt_u64("chunk").unwrap_or(if thorough { 256 } else { 32 });
	let mut chunks = enumerate::chunks(&fams, chunk_graphs);
	if let Some(n) = args.opt_u64("max_chunks") {
		chunks.truncate(n as usize);
	}
	let cap_s = if args.wall_cap_s > 0 { args.wall_cap_s } else if thorough { 2400 } else { 240 };
	let start = Instant::now();
	let deadline = start + Duration::from_secs(cap_s);
	let stop = AtomicBool::new(false);

	let mut ev = Evidence::new(ID, args.tier, args.seed, Level::Exploration);
	let results = par::map(&chunks, args.threads, |_, ch| run_chunk(ch, &fams, thorough, &stop, deadline));

	let max_report = args.opt_u64("max_report").unwrap_or(3) as usize;
	// Merge deterministically in chunk order.
	let mut total = Stats::default();
	let mut skipped_chunks = 0u64;
	let mut fam_complete: Vec<bool> = vec![true; fams.len()];
	let mut machinery_panics = Vec::new();
	for (ci, r) in results.into_iter().enumerate() {
		match r {
			Err(p) => {
				machinery_panics.push(format!("chunk {}: {}", ci, p));
			},
			Ok(s) => {
				if s.skipped {
					skipped_chunks += 1;
					fam_complete[chunks[ci].family] = false;
					continue;
				}
				for (k, v) in s.fam {
					let e = total.fam.entry(k).or_default();
					e.graphs += v.graphs;
					e.queries += v.queries;
					e.routes += v.routes;
					e.refused += v.refused;
				}
				for (k, v) in s.c {
					*total.c.entry(k).or_insert(0) += v;
				}
				for (k, v) in s.refusal_reasons {
					*total.refusal_reasons.entry(k).or_insert(0) += v;
				}
				for (k, v) in s.fired_total {
					*total.fired_total.entry(k).or_insert(0) += v;
				}
				for (k, v) in s.fired_classes {
					*total.fired_classes.entry(k).or_insert(0) += v;
				}
				for f in s.fired {
					// keep the first few firings per oracle and class (enumeration order)
					if total.fired.iter().filter(|(_, _, x)| x.oracle == f.2.oracle && x.class == f.2.class).count() < max_report {
						total.fired.push(f);
					}
				}
				for smp in s.samples {
					if total.samples.len() < 6 {
						total.samples.push(smp);
					}
				}
			},
		}
	}
	if !machinery_panics.is_empty() {
		cli::die(&format!("harness panicked outside the subject: {}", machinery_panics[0]));
	}

	let get = |k: &str| total.c.get(k).copied().unwrap_or(0);
	let evaluations: u64 = total.fam.values().map(|f| f.queries).sum();
	let graphs: u64 = total.fam.values().map(|f| f.graphs).sum();
	let capped = skipped_chunks > 0;

	// Violations: shrink the first firings of each oracle and report distinct minimal inputs.
	let mut violations: Vec<Violation> = Vec::new();
	let mut seen = std::collections::BTreeSet::new();
	for (g, q, f) in &total.fired {
		let (sg, sq, detail) = shrink(g, q, f.oracle, &f.class);
		// Completeness failures are search-heuristic weaknesses with very many distinct minimal
		// inputs each; they are identified by their class. Everything else by the minimal input.
		let identity = if f.oracle == "completeness" {
			format!("{}|{}", f.oracle, f.class)
		} else {
			format!("{}|{}|{}", f.oracle, sg.compact(), sq.compact())
		};
		if !seen.insert(identity.clone()) {
			continue;
		}
		let route = eval_fresh(&sg, &sq).ok().map(|o| match o.result {
			Ok(r) => r.to_json(),
			Err(e) => json!({ "error": e }),
		});
		violations.push(Violation {
			property: ID.to_string(),
			oracle: f.oracle.to_string(),
			identity,
			detail: format!("{} [graph {}] (first seen on graph {} / query {})", if detail.is_empty() { &f.detail } else { &detail }, sg.compact(), g.compact(), q.compact()),
			replay: json!({"graph": sg.to_json(), "query": sq.to_json(), "router_output": route,
				"unshrunk": {"graph": g.to_json(), "query": q.to_json()}}),
		});
	}

	// Evidence.
	ev.set("evaluations", evaluations);
	ev.set("distinct_nontrivial", get("routes"));
	ev.set(
		"rule",
		"a (graph, query) pair counts as non-trivial when find_route returned a route for it (which the validator then checked hop by hop); every enumerated pair is distinct by construction (distinct mixed-radix index / distinct query in the per-graph list)",
	);
	ev.set("exhaustive", !capped && args.opt("family").is_none() && args.opt("max_chunks").is_none());
	ev.set("capped", capped);
	ev.set("skipped_chunks", skipped_chunks);
	ev.set("graphs", graphs);
	ev.set("chunks", chunks.len() as u64);
	let mut famj = mc_common::serde_json::Map::new();
	for (i, f) in fams.iter().enumerate() {
		let s = total.fam.get(&i).cloned().unwrap_or_default();
		famj.insert(
			f.name.to_string(),
			json!({"nodes": f.nodes, "channels": f.chans, "graphs": s.graphs, "queries": s.queries, "routes": s.routes,
				"refused": s.refused, "complete": fam_complete[i],
				"policy_domain": f.pol.iter().map(|p| p.name()).collect::<Vec<_>>(),
				"backward_direction_domain": f.pol_backward.map(|b| b.iter().map(|p| p.name()).collect::<Vec<_>>()),
				"query_set": format!("{:?}", f.qset)}),
		);
	}
	ev.set("families", Value::Object(famj));
	for (k, v) in &total.c {
		ev.set(k, *v);
	}
	ev.set("refusal_reasons", json!(total.refusal_reasons));
	ev.set("oracle_firings", json!(total.fired_total));
	ev.set("oracle_firings_by_class", json!(total.fired_classes));
	ev.set(
		"bounds",
		json!({
			"nodes": if thorough { 4 } else { 3 },
			"capacities_msat": {"small": 1_000_000u64, "large": 5_000_000u64, "huge": MAX_VALUE_MSAT, "unknown": "no UTXO lookup, htlc_maximum 1_000_000"},
			"policies": {"free": "0/0, min 0, max=capacity, cltv 6", "base": "1000 msat, min 1", "prop": "1 %, min 1000",
				"restr": "500 msat + 0.5 %, min 150_000, max 400_000, cltv 40", "extreme": "u32::MAX base and ppm", "disabled": "like free, disable bit", "none": "no channel_update"},
			"final_cltv": FINAL_CLTV,
		}),
	);
	{
		let k = build::keys();
		let mut order: Vec<usize> = (0..4).collect();
		order.sort_by_key(|i| k.node_id[*i]);
		ev.set("node_indices_in_node_id_order", json!(order));
	}
	for s in &total.samples {
		ev.sample(s.clone(), 6);
	}
	ev.assume("The NetworkGraph is populated through update_channel_from_unsigned_announcement (with a UtxoLookup that supplies the capacity, or none for 'unknown' capacity) and update_channel_unsigned; signature checks of gossip are out of scope here (C17).");
	ev.assume("Completeness ('a sufficient single path exists => no Err') is asserted only when max_total_routing_fee_msat is None, max_total_cltv_expiry_delta is the default 1008 and the path fits with the router's 80-block shadow-offset reserve. The brute force mirrors these documented router behaviours, which the property does not forbid: a public channel is usable only if both directions have a channel_update; at most min(max_path_length, 19) hops; supplied first hops replace the payer's announced channels; a blinded path is usable only if its introduction node is known; amounts above 21M BTC are refused.");
	ev.assume("The exception 'amounts deliberately raised to meet a later hop's minimum' is implemented as: a hop whose forwarding node keeps more than its policy fee while the amount it receives equals that channel's htlc_minimum (or the last hop at its minimum while the recipient is overpaid) is a raise; limits of *earlier* hops are checked against the amounts recomputed without such raises. Counters routes_raised_to_a_minimum / routes_using_minimum_exemption report how often this mattered.");
	ev.assume("In-flight HTLCs reach find_route only through ScorerAccountingForInFlightHtlcs (they change penalties, not limits); the validator therefore does not subtract them from channel limits.");
	ev.assume("Per-hop CLTV deltas are not compared with channel policies (the property only bounds the total); info_cltv_below_policy counts routes where a hop's delta was below the next channel's policy.");
	ev.assume("Isomorphic graphs are not merged: node-id order and short-channel-id order influence the router's tie-breaking, so merging would not be sound.");

	// Vacuity guards (full runs only). A guard failure is a machinery error (exit 2) unless the run
	// also found violations, which are reported first (a broken subject can legitimately make a
	// whole outcome class disappear).
	let mut guard_failure: Option<String> = None;
	if args.opt("family").is_none() && args.opt("max_chunks").is_none() && !capped {
		for k in [
			"routes",
			"routes_mpp",
			"refused",
			"routes_via_first_hop",
			"routes_via_hint",
			"routes_via_blinded_tail",
			"overflow_routes",
			"overflow_refused",
			"overflow_routes_paying_extreme_fee",
			"completeness_obligations",
			"routes_sharing_a_channel",
			"routes_under_fee_limit",
			"routes_under_binding_cltv_limit",
			"routes_under_binding_length_limit",
			"routes_avoiding_failed_channel",
			"routes_raised_to_a_minimum",
			"refused_no_single_path",
		] {
			if get(k) == 0 && guard_failure.is_none() {
				guard_failure = Some(format!("vacuity guard: '{}' was never observed", k));
			}
		}
	}
	eprintln!(
		"C16 {}: {} graphs, {} queries, {} routes ({} MPP), {} refused, {} completeness obligations, {:.1}s{}",
		args.tier.name(),
		graphs,
		evaluations,
		get("routes"),
		get("routes_mpp"),
		get("refused"),
		get("completeness_obligations"),
		start.elapsed().as_secs_f64(),
		if capped { " (CAPPED)" } else { "" }
	);
	let code = findings::conclude(ID, &violations, &mut ev);
	if let Some(g) = guard_failure {
		if code == 0 {
			cli::die(&g);
		}
		eprintln!("note: {} (violations were found, so they take precedence)", g);
	}
	std::process::exit(code);
}
