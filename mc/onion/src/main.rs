//! mc-onion: bounded-exhaustive input enumeration for property C14
//! ("Onions deliver exactly each hop's instructions; failures name the right hop").
//!
//! Families (all against the real code in lightning/src/ln/onion_utils.rs / onion_payment.rs):
//!   deliver    – path length x amount class x expiry class x final payload x blinded tail:
//!                `create_payment_onion`, then `peel_payment_onion` (and, via hook H3,
//!                `decode_next_payment_hop`) under every hop's node signer, compared with the route;
//!                fit / does-not-fit predicted by the harness' own TLV size model.
//!   tamper     – every enumerated single-bit flip of the packet and of the payment hash at every hop.
//!   failure    – failing hop x failure reason x data shape, re-wrapped upstream, decoded by the sender.
//!   failtamper – single-bit flips of failure packets in flight.
//!   fulfil     – fulfil attribution data (hold times), incl. partial support and in-flight flips.
mod case;
mod deliver;
mod failure;
mod tamper;
mod world;

use case::*;
use deliver::*;
use failure::*;
use mc_common::cli::{self, Tier};
use mc_common::evidence::{Evidence, Level};
use mc_common::findings::{self, Violation};
use mc_common::{json, par, Value};
use std::collections::BTreeSet;
use std::time::{Duration, Instant};
use tamper::*;
use world::*;

const ID: &str = "C14";
const MAX_VIOLATIONS_PER_FAMILY: usize = 4000;
const MAX_VIOLATIONS_REPORTED: usize = 100;

#[derive(Default)]
struct ItemOut {
	stats: Stats,
	violations: Vec<Violation>,
	digests: Vec<u128>,
	sample: Option<Value>,
	skipped: bool,
}

fn violation(oracle: &str, spec: &Spec, extra_id: &str, detail: String, replay: Value) -> Violation {
	Violation {
		property: ID.to_string(),
		oracle: oracle.to_string(),
		identity: format!("{}|{}|{}", oracle, spec.id(), extra_id),
		detail: format!("[{}] {}", spec.id(), detail),
		replay,
	}
}

// ------------------------------------------------------------------------------------------
// enumeration
// ------------------------------------------------------------------------------------------

fn delivery_specs(tier: Tier) -> Vec<Spec> {
	let mut fins = vec![
		Fin::Secret,
		Fin::SecretMpp,
		Fin::Keysend,
		Fin::KeysendSecret,
		Fin::Meta(0),
		Fin::Meta(1),
		Fin::Meta(400),
		Fin::MetaMax(0),
		Fin::MetaMax(1),
		Fin::Custom(0),
		Fin::Custom(1),
		Fin::CustomMax(0),
		Fin::CustomMax(1),
		Fin::Bare,
	];
	if tier.is_thorough() {
		for l in [2usize, 100, 220, 251, 252, 253, 254, 255, 256, 257, 600, 1000, 1200, 1233] {
			fins.push(Fin::Meta(l));
		}
	}
	let mut v = Vec::new();
	for n in 1..=28 {
		for amt in 0..4u8 {
			for cltv in 0..4u8 {
				for fin in fins.iter() {
					v.push(Spec { n, amt, cltv, fin: fin.clone(), blinded: 0 });
				}
			}
		}
	}
	let bfins = [Fin::Secret, Fin::Keysend, Fin::Custom(0), Fin::Custom(1), Fin::CustomMax(0), Fin::CustomMax(1)];
	for n in 1..=27 {
		for blinded in 1..=3usize {
			for amt in [1u8, 3] {
				for cltv in [1u8, 2, 3] {
					for fin in bfins.iter() {
						v.push(Spec { n, amt, cltv, fin: fin.clone(), blinded });
					}
				}
			}
		}
	}
	v
}

/// Largest n (<= 27) for which this class fits by the harness' size model.
fn max_n_for(w: &World, amt: u8, cltv: u8, fin: &Fin, blinded: usize) -> usize {
	let mut best = 0;
	for n in 1..=27 {
		if let Some(c) = build_case(w, &Spec { n, amt, cltv, fin: fin.clone(), blinded }) {
			if c.fits() {
				best = n;
			}
		}
	}
	best
}

fn tamper_items(w: &World, tier: Tier) -> Vec<(Spec, usize)> {
	let mut specs = Vec::new();
	let base_max = max_n_for(w, 2, 1, &Fin::Secret, 0);
	for n in 1..=base_max {
		if tier.is_thorough() || [1, 2, 3, 4, 6, 9, 14, 20].contains(&n) || n == base_max {
			specs.push(Spec { n, amt: 2, cltv: 1, fin: Fin::Secret, blinded: 0 });
		}
	}
	let classes: Vec<(u8, u8, Fin)> = vec![(1, 3, Fin::KeysendSecret), (3, 2, Fin::MetaMax(0)), (0, 2, Fin::Custom(1))];
	for (amt, cltv, fin) in classes {
		let mx = max_n_for(w, amt, cltv, &fin, 0);
		let mut ns: Vec<usize> = if tier.is_thorough() { (1..=mx).collect() } else { vec![1, 2, mx] };
		ns.sort();
		ns.dedup();
		for n in ns {
			if n >= 1 && n <= mx {
				specs.push(Spec { n, amt, cltv, fin: fin.clone(), blinded: 0 });
			}
		}
	}
	for blinded in 1..=3usize {
		for n in if tier.is_thorough() { vec![1usize, 2, 3, 8] } else { vec![1usize, 3] } {
			specs.push(Spec { n, amt: 1, cltv: 1, fin: Fin::Secret, blinded });
		}
	}
	let mut items = Vec::new();
	for s in specs {
		for hop in 0..s.total_hops() {
			items.push((s.clone(), hop));
		}
	}
	items
}

/// The case whose per-hop shared secrets the failure/fulfil families use for a path of `n`
/// unblinded hops: a policy-admissible one when it fits, the minimal-payload one otherwise.
fn secrets_spec(w: &World, n: usize, blinded: usize) -> Option<Spec> {
	for (amt, cltv, fin) in [(1u8, 1u8, Fin::Secret), (0, 2, Fin::Secret), (0, 0, Fin::Bare)] {
		if blinded > 0 && fin == Fin::Bare {
			continue;
		}
		let s = Spec { n, amt, cltv, fin, blinded };
		if let Some(c) = build_case(w, &s) {
			if c.fits() {
				return Some(s);
			}
		}
	}
	None
}

fn obtain_secrets(w: &World, spec: &Spec) -> Result<(Case, Vec<[u8; 32]>), String> {
	let c = build_case(w, spec).ok_or("case does not build")?;
	let (packet, _, _) = construct(w, &c)?;
	let mut out = Vec::new();
	let secrets = if c.peel_admissible {
		walk_peel(w, &c, &packet, c.exp_in[0], &mut out).map(|wk| wk.secrets)
	} else {
		walk_raw(w, &c, &packet, &mut out).map(|(_, s)| s)
	};
	match secrets {
		Some(s) if out.is_empty() => Ok((c, s)),
		_ => Err(format!("delivery walk failed: {:?}", out)),
	}
}

fn failure_ns(tier: Tier) -> Vec<usize> {
	if tier.is_thorough() {
		(1..=27).collect()
	} else {
		vec![1, 2, 3, 4, 5, 8, 13, 19, 20, 21, 22, 27]
	}
}

// ------------------------------------------------------------------------------------------
// per-item runners (also used by --replay)
// ------------------------------------------------------------------------------------------

fn run_deliver(w: &World, spec: &Spec) -> ItemOut {
	let mut o = ItemOut::default();
	let c = match build_case(w, spec) {
		Some(c) => c,
		None => {
			o.stats.inc("deliver_class_not_applicable");
			return o;
		},
	};
	let (mis, digest) = check_delivery(w, &c, &mut o.stats);
	if let Some(d) = digest {
		o.digests.push(d);
		o.sample = Some(json!({"family": "deliver", "spec": spec.to_json(), "hops": c.hops_total(), "payload_bytes": c.predicted_total, "outcome": "every hop matched the route"}));
	}
	for (oracle, detail) in mis {
		o.violations.push(violation(&oracle, spec, "", detail, json!({"family": "deliver", "spec": spec.to_json()})));
	}
	o
}

fn run_tamper(w: &World, spec: &Spec, hop: usize, all_bits: bool, only: Option<Flip>) -> ItemOut {
	let mut o = ItemOut::default();
	let c = match build_case(w, spec) {
		Some(c) if c.fits() && c.peel_admissible => c,
		_ => {
			o.stats.inc("tamper_untampered_walk_failed");
			return o;
		},
	};
	let packet = match construct(w, &c) {
		Ok((p, _, _)) => p,
		Err(_) => {
			// the delivery family reports this (fitting-route-refused)
			o.stats.inc("tamper_untampered_walk_failed");
			return o;
		},
	};
	let mut mis = Vec::new();
	let walk = match walk_peel(w, &c, &packet, c.exp_in[0], &mut mis) {
		Some(wk) if mis.is_empty() => wk,
		_ => {
			// the delivery family reports this; here it only means nothing can be flipped
			o.stats.inc("tamper_untampered_walk_failed");
			return o;
		},
	};
	o.stats.inc("tamper_hop_packets");
	// non-trivial: an untampered packet that this hop accepts, and that is then corrupted
	o.digests.push(mc_common::digest128(&packet_bytes(&walk.msgs[hop].onion_routing_packet)));
	if let Some(flip) = only {
		o.stats.inc("tamper_cases");
		if let Err(d) = try_flip(w, &c, &walk, hop, &flip, &mut o.stats) {
			o.violations.push(violation("corrupted-input-accepted", spec, &format!("hop={}", hop), d, Value::Null));
		}
		return o;
	}
	for ((oracle, detail), extra) in check_tamper_hop(w, &c, &walk, hop, all_bits, &mut o.stats) {
		let mut replay = json!({"family": "tamper", "spec": spec.to_json()});
		for (k, v) in extra.as_object().unwrap() {
			replay[k] = v.clone();
		}
		let extra_id = format!("hop={},{}", hop, extra.to_string());
		o.violations.push(violation(&oracle, spec, &extra_id, detail, replay));
	}
	o
}

fn origin_json(o: &Origin) -> Value {
	match o {
		Origin::Local => json!("local"),
		Origin::Raw(h) => json!({"raw": h}),
	}
}
fn origin_from_json(v: &Value) -> Option<Origin> {
	if v.as_str() == Some("local") {
		return Some(Origin::Local);
	}
	Some(Origin::Raw(v.get("raw")?.as_u64()? as u32))
}

fn one_failure(w: &World, c: &Case, secrets: &[[u8; 32]], p: usize, origin: &Origin, reason: &lightning::ln::onion_utils::LocalHTLCFailureReason, data: &[u8], o: &mut ItemOut) {
	o.stats.inc("failure_cases");
	o.stats.inc(match origin {
		Origin::Local => "failure_origin_local",
		Origin::Raw(_) => "failure_origin_raw",
	});
	let msg = failure_roundtrip(secrets, p, origin, *reason, data);
	o.stats.max("max_failure_packet_bytes", msg.reason.len() as u64);
	if msg.reason.len() == 292 {
		o.stats.inc("failure_packets_of_292_bytes");
	}
	let d = decode_failure(w, c, &msg);
	let mut mis = Vec::new();
	check_attribution(c, p, origin, reason, data, &d, &mut mis);
	if mis.is_empty() {
		o.stats.inc("failure_attributed_correctly");
		o.stats.inc(&format!("failure_len_class_{}", match data.len() {
			0 => "0",
			1 => "1",
			2..=254 => "2_254",
			255 => "255",
			256 => "256",
			_ => "gt256",
		}));
		if d.hold_times.len() == MAX_ATTRIBUTABLE_HOPS {
			o.stats.inc("failure_with_20_hold_times");
		}
		if d.failed_within_blinded_path {
			o.stats.inc("failure_from_blinded_intro");
		}
		o.digests.push(mc_common::digest128(format!("{:?}", d).as_bytes()));
	}
	for (oracle, detail) in mis {
		if o.violations.len() >= 6 {
			break;
		}
		let code = bolt4_code(reason);
		let replay = json!({"family": "failure", "spec": c.spec.to_json(), "p": p, "origin": origin_json(origin), "reason": reason_json(reason), "data": mc_common::hex(data)});
		o.violations.push(violation(&oracle, &c.spec, &format!("p={},origin={},code={:#06x},len={}", p, origin_json(origin), code, data.len()), detail, replay));
	}
}

const RAW_LENS: [usize; 8] = [0, 1, 253, 254, 255, 256, 257, 1000];

fn run_failure_item(w: &World, spec: &Spec, p: usize, tier: Tier) -> ItemOut {
	let mut o = ItemOut::default();
	let (c, secrets) = match obtain_secrets(w, spec) {
		Ok(x) => x,
		Err(_) => {
			o.stats.inc("failure_no_secrets");
			return o;
		},
	};
	let thorough = tier.is_thorough();
	let local_lens: &[usize] = if thorough { &[0, 1, 136, 251, 252, 253, 254, 255, 998] } else { &[0, 136, 254] };
	for (ri, r) in local_reasons().iter().enumerate() {
		for data in local_datas(r, local_lens, (ri + p) as u8) {
			one_failure(w, &c, &secrets, p, &Origin::Local, r, &data, &mut o);
		}
	}
	let raw = Origin::Raw(hold_time(p));
	for (ri, r) in raw_reasons().iter().enumerate() {
		let full = thorough || matches!(ri, 0 | 7 | 13 | 21);
		for (li, l) in RAW_LENS.iter().enumerate() {
			if full || li == (ri + p) % RAW_LENS.len() {
				let data: Vec<u8> = (0..*l).map(|i| (i as u8).wrapping_mul(13).wrapping_add(ri as u8)).collect();
				one_failure(w, &c, &secrets, p, &raw, r, &data, &mut o);
			}
		}
	}
	if thorough && (p == 0 || p == spec.n - 1) {
		// the largest failure data that still fits an update_fail_htlc with attribution data
		for l in [60_000usize, 64_000] {
			let data = vec![0x5a; l];
			one_failure(w, &c, &secrets, p, &raw, &lightning::ln::onion_utils::LocalHTLCFailureReason::TemporaryChannelFailure, &data, &mut o);
		}
	}
	// a failure the sender produced itself / got as update_fail_malformed from its first hop
	if p == 0 {
		use lightning::ln::onion_utils::verif_hooks::{verif_decode_local_onion_failure, verif_failure_code};
		let r = lightning::ln::onion_utils::LocalHTLCFailureReason::InvalidOnionHMAC;
		let data = vec![3u8; 32];
		let d = verif_decode_local_onion_failure(&w.secp, &NullLogger, &c.path, &c.session_priv, r, data.clone());
		o.stats.inc("failure_cases");
		if d.onion_error_code.map(verif_failure_code) != Some(bolt4_code(&r)) || d.onion_error_data != Some(data) || d.short_channel_id != Some(c.path.hops[0].short_channel_id) {
			o.violations.push(violation("failure-first-hop", spec, "", format!("first-hop failure decoded as {:?}", d), Value::Null));
		} else {
			o.stats.inc("failure_first_hop_attributed");
		}
	}
	if o.sample.is_none() && o.violations.is_empty() {
		o.sample = Some(json!({"family": "failure", "spec": spec.to_json(), "failing_hop": p, "cases": o.stats.get("failure_cases"), "outcome": "all attributed to the failing hop with code, data and hold times intact"}));
	}
	o
}

/// density 2: every bit; 1: one bit of every data byte and of every 4th attribution byte (the bit
/// index rotates so all 8 positions occur); 0: every 4th of those.
fn fail_flip_bits(data_len: usize, density: u8) -> Vec<FailFlip> {
	let mut v = Vec::new();
	let mut k = 0usize;
	for byte in 0..data_len {
		for bit in 0..8 {
			if density == 2 || bit == byte % 8 {
				k += 1;
				if density > 0 || k % 4 == 0 {
					v.push(FailFlip::Data(byte * 8 + bit));
				}
			}
		}
	}
	for byte in 0..920 {
		for bit in 0..8 {
			if density == 2 || (byte % 4 == 0 && bit == (byte / 4) % 8) {
				k += 1;
				if density > 0 || k % 4 == 0 {
					v.push(FailFlip::Attr(byte * 8 + bit));
				}
			}
		}
	}
	v
}

fn flip_json(f: &FailFlip) -> Value {
	match f {
		FailFlip::Data(b) => json!({"data": b}),
		FailFlip::Attr(b) => json!({"attr": b}),
	}
}
fn flip_from_json(v: &Value) -> Option<FailFlip> {
	if let Some(b) = v.get("data").and_then(|b| b.as_u64()) {
		return Some(FailFlip::Data(b as usize));
	}
	Some(FailFlip::Attr(v.get("attr")?.as_u64()? as usize))
}

fn one_failtamper(w: &World, c: &Case, secrets: &[[u8; 32]], chain: &[FailMsg], p: usize, origin: &Origin, reason: &lightning::ln::onion_utils::LocalHTLCFailureReason, data: &[u8], m: usize, flip: &FailFlip, clean: &lightning::ln::onion_utils::verif_hooks::VerifDecodedFailure, o: &mut ItemOut) {
	let msg = match tampered_roundtrip(secrets, chain, m, flip) {
		Some(m) => m,
		None => return,
	};
	o.stats.inc("failtamper_cases");
	o.stats.inc(match flip {
		FailFlip::Data(_) => "failtamper_data_bits",
		FailFlip::Attr(_) => "failtamper_attribution_bits",
	});
	let d = decode_failure(w, c, &msg);
	let mut mis = Vec::new();
	check_tampered(c, p, m, clean, &d, &mut mis, &mut o.stats);
	if mis.is_empty() {
		o.digests.push(mc_common::digest128(format!("{}|{}|{}|{:?}", c.spec.n, p, m, d).as_bytes()));
	}
	for (oracle, detail) in mis {
		if o.violations.len() >= 6 {
			break;
		}
		let replay = json!({"family": "failtamper", "spec": c.spec.to_json(), "p": p, "origin": origin_json(origin), "reason": reason_json(reason), "data": mc_common::hex(data), "m": m, "flip": flip_json(flip)});
		o.violations.push(violation(&oracle, &c.spec, &format!("p={},m={},flip={}", p, m, flip_json(flip)), detail, replay));
	}
}

fn run_failtamper_item(w: &World, spec: &Spec, p: usize, m: usize, density: u8) -> ItemOut {
	use lightning::ln::onion_utils::LocalHTLCFailureReason as R;
	let mut o = ItemOut::default();
	let (c, secrets) = match obtain_secrets(w, spec) {
		Ok(x) => x,
		Err(_) => {
			o.stats.inc("failtamper_no_secrets");
			return o;
		},
	};
	let (origin, reason, data): (Origin, R, Vec<u8>) = if p == spec.n - 1 {
		(Origin::Local, R::IncorrectPaymentDetails, vec![0, 0, 0, 0, 0, 0, 3, 232, 0, 12, 53, 0])
	} else {
		(Origin::Raw(hold_time(p)), R::TemporaryChannelFailure, {
			let mut d = vec![0u8, 136];
			d.extend((0..136).map(|i| i as u8));
			d
		})
	};
	let chain = failure_chain(&secrets, p, &origin, reason, &data);
	let clean_msg = chain[0].clone();
	let clean = decode_failure(w, &c, &clean_msg);
	let mut mis = Vec::new();
	check_attribution(&c, p, &origin, &reason, &data, &clean, &mut mis);
	if !mis.is_empty() {
		o.stats.inc("failtamper_clean_baseline_failed");
		return o;
	}
	for flip in fail_flip_bits(clean_msg.reason.len(), density) {
		one_failtamper(w, &c, &secrets, &chain, p, &origin, &reason, &data, m, &flip, &clean, &mut o);
	}
	if o.violations.is_empty() {
		o.sample = Some(json!({"family": "failtamper", "spec": spec.to_json(), "failing_hop": p, "corrupted_after_hop": m, "flips": o.stats.get("failtamper_cases"), "unattributed": o.stats.get("failtamper_unattributed"), "still_attributed": o.stats.get("failtamper_still_attributed_to_origin")}));
	}
	o
}

fn one_fulfil(w: &World, c: &Case, secrets: &[[u8; 32]], chain: &[lightning::ln::onion_utils::AttributionData], start: usize, final_hold: u32, tamper: Option<(usize, usize)>, o: &mut ItemOut) {
	let ad = match tamper {
		None => chain[0].clone(),
		Some((m, bit)) => match tampered_fulfil(secrets, chain, m, bit) {
			Some(a) => a,
			None => return,
		},
	};
	o.stats.inc("fulfil_cases");
	let got = decode_fulfil(w, c, ad);
	let want = expected_fulfil(c, start, final_hold);
	let replay = json!({"family": "fulfil", "spec": c.spec.to_json(), "start": start, "final_hold": final_hold, "tamper": tamper.map(|(m, b)| json!([m, b]))});
	match tamper {
		None => {
			if got != want {
				o.violations.push(violation("fulfil-hold-times", &c.spec, &format!("start={},final_hold={}", start, final_hold), format!("fulfil attribution started at hop {}: sender reads {:?}, hops inserted {:?}", start, got, want), replay));
			} else {
				o.stats.inc("fulfil_hold_times_exact");
				if got.len() == MAX_ATTRIBUTABLE_HOPS {
					o.stats.inc("fulfil_with_20_hold_times");
				}
				if start + 1 < c.hops_total() {
					o.stats.inc("fulfil_partial_support_exact");
				}
				o.digests.push(mc_common::digest128(format!("fulfil{:?}", got).as_bytes()));
			}
		},
		Some((m, bit)) => {
			o.stats.inc("fulfil_tamper_cases");
			let a = c.spec.n.min(MAX_ATTRIBUTABLE_HOPS);
			let prefix = got.len() <= want.len() && got[..] == want[..got.len()];
			if !prefix || got.len() < m.min(a).min(want.len()) {
				if o.violations.len() < 6 {
					o.violations.push(violation("corrupted-fulfil-hold-times", &c.spec, &format!("start={},m={},bit={}", start, m, bit), format!("fulfil attribution corrupted after hop {} (bit {}): sender reads {:?}, hops inserted {:?}", m, bit, got, want), replay));
				}
			} else if got.len() == want.len() {
				o.stats.inc("fulfil_tamper_harmless");
			} else {
				o.stats.inc("fulfil_tamper_truncated");
			}
		},
	}
}

/// `part`: None = the untampered variants; Some(m) = flips of the data emitted by hop m.
fn run_fulfil_item(w: &World, spec: &Spec, part: Option<usize>, tier: Tier) -> ItemOut {
	let mut o = ItemOut::default();
	let (c, secrets) = match obtain_secrets(w, spec) {
		Ok(x) => x,
		Err(_) => {
			o.stats.inc("fulfil_no_secrets");
			return o;
		},
	};
	let h = c.hops_total();
	match part {
		None => {
			one_fulfil(w, &c, &secrets, &fulfil_chain(&secrets, h - 1, 0), h - 1, 0, None, &mut o);
			one_fulfil(w, &c, &secrets, &fulfil_chain(&secrets, h - 1, hold_time(h - 1)), h - 1, hold_time(h - 1), None, &mut o);
			for k in 0..h - 1 {
				one_fulfil(w, &c, &secrets, &fulfil_chain(&secrets, k, hold_time(k)), k, hold_time(k), None, &mut o);
			}
		},
		Some(m) => {
			let chain = fulfil_chain(&secrets, h - 1, hold_time(h - 1));
			let all_bits = tier.is_thorough() && h <= 5;
			for byte in 0..920usize {
				for bit in 0..8 {
					if all_bits || (byte % 4 == 0 && bit == (byte / 4) % 8) {
						one_fulfil(w, &c, &secrets, &chain, h - 1, hold_time(h - 1), Some((m, byte * 8 + bit)), &mut o);
					}
				}
			}
		},
	}
	if o.violations.is_empty() {
		o.sample = Some(json!({"family": "fulfil", "spec": spec.to_json(), "hops": h, "corrupted_after_hop": part, "cases": o.stats.get("fulfil_cases")}));
	}
	o
}

/// The degenerate zero-value route (outside the property's domain: BOLT 2 forbids 0-msat HTLCs)
/// is only *observed*: does an earlier hop's fee leak into a later hop's amount_to_forward?
fn observe_zero_value(w: &World, st: &mut Stats) {
	use lightning::ln::onion_utils::verif_hooks::{verif_decode_next_payment_hop, VerifHop};
	let spec = Spec { n: 3, amt: 0, cltv: 1, fin: Fin::Secret, blinded: 0 };
	if let Some(mut c) = build_case(w, &spec) {
		c.path.hops[0].fee_msat = 5;
		c.path.hops[2].fee_msat = 0;
		c.onion_fields.total_mpp_amount_msat = 0;
		if let Ok((p, msat, _)) = construct(w, &c) {
			if let Ok(VerifHop::Forward { amt_to_forward, .. }) = verif_decode_next_payment_hop(&p.public_key.unwrap(), &p.hop_data, p.hmac, c.payment_hash, None, &w.signers[0]) {
				st.add("observed_zero_value_route_first_htlc_msat", msat);
				st.add("observed_zero_value_route_hop0_amt_to_forward", amt_to_forward);
			}
		}
	}
}

// ------------------------------------------------------------------------------------------
// driver
// ------------------------------------------------------------------------------------------

struct Agg {
	stats: Stats,
	violations: Vec<Violation>,
	digests: BTreeSet<u128>,
	samples: Vec<Value>,
	skipped: u64,
}

fn absorb(agg: &mut Agg, family: &str, results: Vec<Result<ItemOut, String>>, ids: &[String]) {
	let mut fam_viol = 0usize;
	let mut fam_candidates: Vec<Value> = Vec::new();
	for (i, r) in results.into_iter().enumerate() {
		match r {
			Ok(o) => {
				agg.stats.merge(&o.stats);
				if o.skipped {
					agg.skipped += 1;
					agg.stats.inc(&format!("{}_items_skipped_by_cap", family));
					continue;
				}
				agg.stats.inc(&format!("{}_items", family));
				for d in o.digests {
					agg.digests.insert(d);
				}
				if let Some(s) = o.sample {
					fam_candidates.push(s);
				}
				for v in o.violations {
					if fam_viol < MAX_VIOLATIONS_PER_FAMILY {
						agg.violations.push(v);
						fam_viol += 1;
					} else {
						agg.stats.inc("violations_not_listed");
					}
				}
			},
			Err(panic) => {
				agg.stats.inc("panics");
				if fam_viol < MAX_VIOLATIONS_PER_FAMILY {
					fam_viol += 1;
					agg.violations.push(Violation {
						property: ID.to_string(),
						oracle: "no-panic".to_string(),
						identity: format!("no-panic|{}|{}", family, ids[i]),
						detail: format!("panic in the subject while running {} item {}: {}", family, ids[i], panic),
						replay: json!({"family": "item", "item_family": family, "item": ids[i]}),
					});
				}
			},
		}
	}
	// three evenly spaced samples per family
	let k = fam_candidates.len();
	if k > 0 {
		let picks: BTreeSet<usize> = [0, k / 2, k - 1].into_iter().collect();
		for i in picks {
			agg.samples.push(fam_candidates[i].clone());
		}
	}
}

fn replay(w: &World, args: &cli::Args, path: &std::path::Path) -> ! {
	let text = std::fs::read_to_string(path).unwrap_or_else(|e| cli::die(&format!("cannot read {}: {}", path.display(), e)));
	let v: Value = mc_common::serde_json::from_str(&text).unwrap_or_else(|e| cli::die(&format!("replay file does not parse: {}", e)));
	let r = v.get("replay").cloned().unwrap_or(Value::Null);
	let fam = r.get("family").and_then(|f| f.as_str()).unwrap_or_else(|| cli::die("replay has no family"));
	let spec = r.get("spec").and_then(Spec::from_json);
	par::set_quiet(false);
	let res = par::guarded(|| -> ItemOut {
		match fam {
			"deliver" => run_deliver(w, &spec.clone().unwrap_or_else(|| cli::die("no spec"))),
			"tamper" => {
				let spec = spec.clone().unwrap_or_else(|| cli::die("no spec"));
				let hop = r["hop"].as_u64().unwrap_or(0) as usize;
				let flip = match (r.get("packet_bit").and_then(|b| b.as_u64()), r.get("hash_bit").and_then(|b| b.as_u64())) {
					(Some(b), _) => Flip::Packet(b as usize),
					(_, Some(b)) => Flip::Hash(b as usize),
					_ => cli::die("tamper replay without a bit"),
				};
				run_tamper(w, &spec, hop, false, Some(flip))
			},
			"failure" | "failtamper" => {
				let spec = spec.clone().unwrap_or_else(|| cli::die("no spec"));
				let mut o = ItemOut::default();
				let (c, secrets) = obtain_secrets(w, &spec).unwrap_or_else(|e| cli::die(&e));
				let p = r["p"].as_u64().unwrap_or(0) as usize;
				let origin = origin_from_json(&r["origin"]).unwrap_or_else(|| cli::die("bad origin"));
				let reason = reason_from_json(&r["reason"]).unwrap_or_else(|| cli::die("bad reason"));
				let data = mc_common::unhex(r["data"].as_str().unwrap_or("")).unwrap_or_default();
				if fam == "failure" {
					one_failure(w, &c, &secrets, p, &origin, &reason, &data, &mut o);
				} else {
					let m = r["m"].as_u64().unwrap_or(0) as usize;
					let flip = flip_from_json(&r["flip"]).unwrap_or_else(|| cli::die("bad flip"));
					let chain = failure_chain(&secrets, p, &origin, reason, &data);
					let clean = decode_failure(w, &c, &chain[0]);
					one_failtamper(w, &c, &secrets, &chain, p, &origin, &reason, &data, m, &flip, &clean, &mut o);
				}
				o
			},
			"fulfil" => {
				let spec = spec.clone().unwrap_or_else(|| cli::die("no spec"));
				let mut o = ItemOut::default();
				let (c, secrets) = obtain_secrets(w, &spec).unwrap_or_else(|e| cli::die(&e));
				let tamper = r.get("tamper").and_then(|t| t.as_array()).map(|a| (a[0].as_u64().unwrap_or(0) as usize, a[1].as_u64().unwrap_or(0) as usize));
				let start = r["start"].as_u64().unwrap_or(0) as usize;
				let final_hold = r["final_hold"].as_u64().unwrap_or(0) as u32;
				one_fulfil(w, &c, &secrets, &fulfil_chain(&secrets, start, final_hold), start, final_hold, tamper, &mut o);
				o
			},
			"item" => {
				// a panic: re-run the whole work item
				let item: Value = mc_common::serde_json::from_str(r["item"].as_str().unwrap_or("null")).unwrap_or(Value::Null);
				let spec = item.get("spec").and_then(Spec::from_json).unwrap_or_else(|| cli::die("no spec in item"));
				match r["item_family"].as_str().unwrap_or("") {
					"deliver" => run_deliver(w, &spec),
					"tamper" => run_tamper(w, &spec, item["hop"].as_u64().unwrap_or(0) as usize, args.tier.is_thorough(), None),
					"failure" => run_failure_item(w, &spec, item["p"].as_u64().unwrap_or(0) as usize, args.tier),
					"failtamper" => run_failtamper_item(w, &spec, item["p"].as_u64().unwrap_or(0) as usize, item["m"].as_u64().unwrap_or(0) as usize, item["density"].as_u64().unwrap_or(1) as u8),
					"fulfil" => run_fulfil_item(w, &spec, item["part"].as_u64().map(|m| m as usize), args.tier),
					f => cli::die(&format!("unknown item family {}", f)),
				}
			},
			f => cli::die(&format!("unknown replay family {}", f)),
		}
	});
	match res {
		Ok(o) if o.violations.is_empty() => {
			println!("REPLAY: property={} no violation (the recorded input now passes)", ID);
			std::process::exit(0)
		},
		Ok(o) => {
			for v in o.violations.iter() {
				println!("REPLAY: VIOLATION property={} oracle={} {}", ID, v.oracle, v.detail);
			}
			std::process::exit(1)
		},
		Err(p) => {
			println!("REPLAY: VIOLATION property={} oracle=no-panic {}", ID, p);
			std::process::exit(1)
		},
	}
}

fn main() {
	let args = cli::parse();
	if !args.property.is_empty() && args.property != ID {
		cli::die(&format!("mc-onion serves {} only", ID));
	}
	par::install_quiet_panic_hook();
	let w = World::new();
	if let Some(p) = args.replay.clone() {
		replay(&w, &args, &p);
	}
	let tier = args.tier;
	let cap_s = if args.wall_cap_s > 0 { args.wall_cap_s } else if tier.is_thorough() { 2400 } else { 55 };
	let start = Instant::now();
	let deadline = start + Duration::from_secs(cap_s);
	let only = args.opt("family").map(|s| s.to_string());
	let want = |f: &str| only.as_deref().map(|o| o == f).unwrap_or(true);
	let threads = args.threads;
	let mut ev = Evidence::new(ID, tier, args.seed, Level::Exploration);
	let mut agg = Agg { stats: Stats::default(), violations: Vec::new(), digests: BTreeSet::new(), samples: Vec::new(), skipped: 0 };
	let mut timings = Vec::new();
	let over = |d: Instant| Instant::now() >= d;

	// ---- deliver ----
	if want("deliver") {
		let t = Instant::now();
		let specs = delivery_specs(tier);
		let ids: Vec<String> = specs.iter().map(|s| json!({"spec": s.to_json()}).to_string()).collect();
		let res = par::map(&specs, threads, |_, s| {
			if over(deadline) {
				return ItemOut { skipped: true, ..Default::default() };
			}
			run_deliver(&w, s)
		});
		absorb(&mut agg, "deliver", res, &ids);
		observe_zero_value(&w, &mut agg.stats);
		timings.push(("deliver", t.elapsed().as_secs_f64()));
	}
	// ---- tamper ----
	if want("tamper") {
		let t = Instant::now();
		let items = tamper_items(&w, tier);
		let ids: Vec<String> = items.iter().map(|(s, h)| json!({"spec": s.to_json(), "hop": h}).to_string()).collect();
		let res = par::map(&items, threads, |_, (s, hop)| {
			if over(deadline) {
				return ItemOut { skipped: true, ..Default::default() };
			}
			let mut o = run_tamper(&w, s, *hop, tier.is_thorough(), None);
			if o.violations.is_empty() && *hop == 0 {
				o.sample = Some(json!({"family": "tamper", "spec": s.to_json(), "hop": hop, "flips": o.stats.get("tamper_cases"), "rejected": o.stats.get("tamper_rejected") + o.stats.get("tamper_rejected_at_wire_decode")}));
			}
			o
		});
		absorb(&mut agg, "tamper", res, &ids);
		timings.push(("tamper", t.elapsed().as_secs_f64()));
	}
	// ---- failure ----
	if want("failure") {
		let t = Instant::now();
		let mut items: Vec<(Spec, usize)> = Vec::new();
		for n in failure_ns(tier) {
			if let Some(s) = secrets_spec(&w, n, 0) {
				for p in 0..n {
					items.push((s.clone(), p));
				}
			} else {
				agg.stats.inc("failure_path_lengths_without_a_fitting_route");
			}
		}
		let blinded_paths: Vec<(usize, usize)> = if tier.is_thorough() {
			let mut v = Vec::new();
			for n in [1usize, 2, 3, 5, 8, 19, 20, 21] {
				for b in 1..=3usize {
					v.push((n, b));
				}
			}
			v
		} else {
			vec![(1, 1), (2, 1), (2, 2), (5, 2), (3, 3), (20, 2)]
		};
		for (n, b) in blinded_paths {
			if let Some(s) = secrets_spec(&w, n, b) {
				for p in 0..n {
					items.push((s.clone(), p));
				}
			}
		}
		// longest items first: better load balance
		items.sort_by(|a, b| (b.0.n, b.1).cmp(&(a.0.n, a.1)).then(a.0.cmp(&b.0)));
		let ids: Vec<String> = items.iter().map(|(s, p)| json!({"spec": s.to_json(), "p": p}).to_string()).collect();
		let res = par::map(&items, threads, |_, (s, p)| {
			if over(deadline) {
				return ItemOut { skipped: true, ..Default::default() };
			}
			run_failure_item(&w, s, *p, tier)
		});
		absorb(&mut agg, "failure", res, &ids);
		timings.push(("failure", t.elapsed().as_secs_f64()));
	}
	// ---- failtamper ----
	if want("failtamper") {
		let t = Instant::now();
		let mut items: Vec<(Spec, usize, usize, u8)> = Vec::new();
		let ns: Vec<usize> = if tier.is_thorough() { vec![1, 2, 3, 4, 5, 6, 9, 12, 19, 20, 21, 22, 27] } else { vec![1, 2, 3, 6, 21] };
		for n in ns {
			if let Some(s) = secrets_spec(&w, n, 0) {
				let ps: BTreeSet<usize> = if tier.is_thorough() && n <= 12 { (0..n).collect() } else { [n - 1, n / 2].into_iter().collect() };
				for p in ps {
					let ms: BTreeSet<usize> = if tier.is_thorough() || p <= 6 { (0..=p).collect() } else { [0, 1, p / 2, p - 1, p].into_iter().collect() };
					for m in ms {
						let density = if tier.is_thorough() { if n <= 4 { 2 } else { 1 } } else if n <= 6 { 1 } else { 0 };
						items.push((s.clone(), p, m, density));
					}
				}
			}
		}
		items.sort_by(|a, b| (b.3, b.0.n, b.1, b.2).cmp(&(a.3, a.0.n, a.1, a.2)));
		let ids: Vec<String> = items.iter().map(|(s, p, m, d)| json!({"spec": s.to_json(), "p": p, "m": m, "density": d}).to_string()).collect();
		let res = par::map(&items, threads, |_, (s, p, m, d)| {
			if over(deadline) {
				return ItemOut { skipped: true, ..Default::default() };
			}
			run_failtamper_item(&w, s, *p, *m, *d)
		});
		absorb(&mut agg, "failtamper", res, &ids);
		timings.push(("failtamper", t.elapsed().as_secs_f64()));
	}
	// ---- fulfil ----
	if want("fulfil") {
		let t = Instant::now();
		let mut items: Vec<(Spec, Option<usize>)> = Vec::new();
		let mut specs: Vec<Spec> = Vec::new();
		for n in 1..=27 {
			if let Some(s) = secrets_spec(&w, n, 0) {
				specs.push(s);
			}
		}
		for (n, b) in [(1usize, 2usize), (2, 2), (3, 3), (19, 2), (20, 3)] {
			if let Some(s) = secrets_spec(&w, n, b) {
				specs.push(s);
			}
		}
		for s in specs {
			items.push((s.clone(), None));
			let h = s.total_hops();
			let tampered = tier.is_thorough() || [1, 2, 3, 5, 12, 20, 21, 27].contains(&h);
			if tampered {
				let ms: BTreeSet<usize> = if tier.is_thorough() || h <= 6 { (0..h).collect() } else { [0, 1, h / 2, h - 2, h - 1].into_iter().collect() };
				for m in ms {
					items.push((s.clone(), Some(m)));
				}
			}
		}
		items.sort_by(|a, b| (b.0.n, b.1).cmp(&(a.0.n, a.1)).then(a.0.cmp(&b.0)));
		let ids: Vec<String> = items.iter().map(|(s, part)| json!({"spec": s.to_json(), "part": part}).to_string()).collect();
		let res = par::map(&items, threads, |_, (s, part)| {
			if over(deadline) {
				return ItemOut { skipped: true, ..Default::default() };
			}
			run_fulfil_item(&w, s, *part, tier)
		});
		absorb(&mut agg, "fulfil", res, &ids);
		timings.push(("fulfil", t.elapsed().as_secs_f64()));
	}

	// ---- vacuity guards ----
	let st = &agg.stats;
	let capped = agg.skipped > 0;
	let mut guards: Vec<(&str, bool)> = Vec::new();
	if want("deliver") && !capped {
		guards.push(("some onion delivered with every field matching", st.get("deliver_fully_matched") > 0));
		guards.push(("a path of >= 26 hops was constructed and delivered", st.get("max_path_len_delivered") >= 26));
		guards.push(("a path of >= 20 hops was peeled with peel_payment_onion", st.get("max_path_len_peeled") >= 20));
		guards.push(("an oversize route was refused", st.get("deliver_refused_oversize") > 0));
		guards.push(("a packet was filled to the byte", st.get("deliver_filled_to_the_byte") > 0));
		for b in 1..=3 {
			guards.push(("each blinded tail length was enumerated", st.get(&format!("deliver_blinded_tail_{}", b)) > 0));
		}
		for f in ["secret", "secret-mpp", "keysend", "keysend-secret", "metadata", "metadata-max-fit", "metadata-too-big", "custom-tlvs", "custom-max-fit", "custom-too-big", "bare"] {
			guards.push(("each final payload family was enumerated", st.get(&format!("deliver_final_{}", f)) > 0));
		}
		guards.push(("the bare final payload is refused by policy only after decoding", st.get("deliver_bare_refused_by_policy") > 0));
	}
	if want("tamper") && !capped {
		guards.push(("tampered packets were rejected", st.get("tamper_rejected") > 0));
		guards.push(("HMAC rejections observed", st.get("tamper_reject_reason_InvalidOnionHMAC") > 0));
		guards.push(("bad-key rejections observed", st.get("tamper_reject_reason_InvalidOnionKey") > 0));
		guards.push(("bad-version rejections observed", st.get("tamper_reject_reason_InvalidOnionVersion") > 0));
		guards.push(("payment-hash flips were run", st.get("tamper_payment_hash_bits") > 0));
		guards.push(("no tamper item lost its baseline", st.get("tamper_untampered_walk_failed") == 0 || !agg.violations.is_empty()));
	}
	if want("failure") && !capped {
		guards.push(("failures were attributed correctly", st.get("failure_attributed_correctly") > 0));
		guards.push(("failures with 20 hold times were decoded", st.get("failure_with_20_hold_times") > 0));
		guards.push(("every data-length class was decoded", ["0", "1", "2_254", "255", "256", "gt256"].iter().all(|c| st.get(&format!("failure_len_class_{}", c)) > 0)));
		guards.push(("blinded-intro failures were seen", st.get("failure_from_blinded_intro") > 0));
		guards.push(("all failure items had secrets", st.get("failure_no_secrets") == 0 || !agg.violations.is_empty()));
	}
	if want("failtamper") && !capped {
		guards.push(("corrupted failures became unattributable", st.get("failtamper_unattributed") > 0));
		guards.push(("attribution-only corruption kept the attribution", st.get("failtamper_still_attributed_to_origin") > 0));
		guards.push(("hold times stopped at the corrupting hop", st.get("failtamper_hold_times_stop_at_corrupting_hop") > 0));
		guards.push(("failtamper baselines held", st.get("failtamper_clean_baseline_failed") == 0 || !agg.violations.is_empty()));
	}
	if want("fulfil") && !capped {
		guards.push(("fulfil hold times decoded exactly", st.get("fulfil_hold_times_exact") > 0));
		guards.push(("20 fulfil hold times decoded", st.get("fulfil_with_20_hold_times") > 0));
		guards.push(("corrupted fulfil data was truncated", st.get("fulfil_tamper_truncated") > 0));
	}
	// a violation is a verdict and takes precedence: broken code may legitimately starve a guard
	if agg.violations.is_empty() {
		for (name, ok) in guards.iter() {
			if !ok {
				cli::die(&format!("vacuity guard failed: {}", name));
			}
		}
	}

	// report the smallest failing inputs first (conclude lists at most 20)
	fn n_of(v: &Violation) -> usize {
		v.identity.split("n=").nth(1).and_then(|r| r.split(',').next()).and_then(|x| x.parse().ok()).unwrap_or(0)
	}
	agg.violations.sort_by(|a, b| (n_of(a), &a.identity).cmp(&(n_of(b), &b.identity)));
	let violations_found = agg.violations.len();
	agg.violations.truncate(MAX_VIOLATIONS_REPORTED);

	// ---- evidence ----
	let evaluations = st.get("deliver_cases") + st.get("tamper_cases") + st.get("failure_cases") + st.get("failtamper_cases") + st.get("fulfil_cases");
	ev.set("evaluations", evaluations);
	ev.set("distinct_nontrivial", agg.digests.len() as u64);
	ev.set(
		"rule",
		"distinct successful outcomes, by 128-bit digest: (a) first-hop onion packets that were constructed and then peeled hop by hop down to a final Receive with every per-hop field equal to the route, (b) per-hop packets that the hop accepted untampered and that were then corrupted bit by bit, (c) decoded failure attributions that matched the failing hop, code, data and hold times, (d) decoded outcomes of corrupted failures that satisfied the oracle, (e) decoded fulfil hold-time vectors that matched",
	);
	ev.set("violations_found_before_truncation", violations_found as u64);
	ev.set("exhaustive", !capped);
	ev.set("capped", capped);
	ev.set("items_skipped_by_cap", agg.skipped);
	ev.set("wall_cap_s", cap_s);
	ev.set("threads", threads as u64);
	ev.set("max_path_length_found", st.get("max_path_len_constructed"));
	let mut counts = mc_common::serde_json::Map::new();
	for (k, v) in st.0.iter() {
		counts.insert(k.clone(), json!(v));
	}
	ev.set("counts", Value::Object(counts));
	ev.set("family_wall_s", Value::Object(timings.iter().map(|(k, v)| (k.to_string(), json!((v * 100.0).round() / 100.0))).collect()));
	ev.set(
		"bounds",
		json!({
			"path_lengths": "1..=28 unblinded hops (28 never fits), blinded tails of 1..=3 hops on 1..=27 unblinded hops",
			"amount_classes": ["all fees 0, value 1 msat", "fees i+1, value 1000", "amounts on every tu64 byte-length boundary (255/256 .. 2^56)", "value 1000 msat below the 21M BTC cap"],
			"expiry_classes": ["height 0, deltas 0 (hook decode only)", "height 800000, deltas 48..72", "height 1, deltas 48", "height 499990000"],
			"final_payloads": ["secret", "secret with MPP total", "keysend", "keysend+secret", "metadata 0/1/400 (thorough: 14 more lengths)", "metadata max-that-fits and one byte more", "custom TLVs (one; five incl. both neighbours of the keysend type and u64::MAX)", "one custom TLV max-that-fits and one byte more", "bare"],
			"tamper_bits": if tier.is_thorough() { "all 10928 bits of the packet + 256 payment-hash bits, at every hop" } else { "all bits of version/ephemeral key/HMAC, one bit of every hop-data byte (bit index = byte index mod 8), 256 payment-hash bits, at every hop" },
			"failure": "failing hop 0..n x 46 named reasons + unknown codes x BOLT-4-shaped data (through HTLCFailReason::reason) and arbitrary data lengths {0,1,253,254,255,256,257,1000} (through build_failure_packet)",
		}),
	);
	for s in agg.samples.iter().take(16) {
		ev.sample(s.clone(), 16);
	}
	ev.assume("secp256k1, SHA-256, HMAC and ChaCha20 behave to specification");
	ev.assume("routes pay at least 1 msat to the recipient (BOLT 2 forbids 0-msat HTLCs); the zero-value route is only observed, see counts.observed_zero_value_route_*");
	ev.assume("hop keys are 34 fixed KeysManager node keys; session key and filler seed are fixed per case (the code under test is key-agnostic apart from EC arithmetic)");
	ev.assume("peel_payment_onion is given relay-policy-admissible routes (expiry deltas >= 48, total <= 2016); arbitrary expiries/amounts go through decode_next_payment_hop (hook H3)");
	ev.assume("trampoline, phantom and dummy hops are outside the enumeration");
	ev.assume("failure/fulfil helpers are reached through add-only hook H3 wrappers that call the crate-private functions unchanged");
	eprintln!(
		"C14 {}: evaluations={} distinct={} violations={} capped={} wall={:.1}s families={:?}",
		tier.name(),
		evaluations,
		agg.digests.len(),
		agg.violations.len(),
		capped,
		start.elapsed().as_secs_f64(),
		timings
	);
	std::process::exit(findings::conclude(ID, &agg.violations, &mut ev));
}
