//! Family 1: construction + hop-by-hop peeling, compared with the route.
use crate::case::*;
use crate::world::*;
use bitcoin::secp256k1::PublicKey;
use lightning::ln::channelmanager::{BlindedFailure, PendingHTLCInfo, PendingHTLCRouting};
use lightning::ln::msgs::{OnionPacket, UpdateAddHTLC};
use lightning::ln::onion_payment::{peel_payment_onion, InboundHTLCErr};
use lightning::ln::onion_utils::verif_hooks::{verif_decode_next_payment_hop, VerifHop};
use lightning::ln::onion_utils::create_payment_onion;
use lightning::ln::types::ChannelId;
use lightning::sign::{NodeSigner, Recipient};
use lightning::types::payment::PaymentHash;
use lightning::util::ser::{Readable, Writeable};

pub fn construct(w: &World, c: &Case) -> Result<(OnionPacket, u64, u32), String> {
	create_payment_onion(
		&w.secp,
		&c.path,
		&c.session_priv,
		&c.onion_fields,
		c.cur_height,
		&c.payment_hash,
		&c.keysend,
		None,
		c.prng_seed,
	)
	.map_err(|e| format!("{:?}", e))
}

pub fn packet_bytes(p: &OnionPacket) -> Vec<u8> {
	p.encode()
}

pub fn packet_from_bytes(b: &[u8]) -> Option<OnionPacket> {
	let mut cur = lightning::io::Cursor::new(b);
	let p: OnionPacket = Readable::read(&mut cur).ok()?;
	if cur.position() as usize != b.len() {
		return None;
	}
	Some(p)
}

pub fn update_add(amount_msat: u64, cltv_expiry: u32, payment_hash: PaymentHash, onion: OnionPacket, blinding_point: Option<PublicKey>) -> UpdateAddHTLC {
	UpdateAddHTLC {
		channel_id: ChannelId::from_bytes([0; 32]),
		htlc_id: 0,
		amount_msat,
		cltv_expiry,
		payment_hash,
		onion_routing_packet: onion,
		skimmed_fee_msat: None,
		blinding_point,
		hold_htlc: None,
		accountable: None,
	}
}

pub fn peel(w: &World, signer: usize, msg: &UpdateAddHTLC, cur_height: u32) -> Result<PendingHTLCInfo, InboundHTLCErr> {
	peel_payment_onion(msg, &w.signers[signer], &NullLogger, &w.secp, cur_height, false)
}

/// What a walk over all hops yields for the other families.
pub struct Walk {
	/// the `update_add_htlc` each hop received
	pub msgs: Vec<UpdateAddHTLC>,
	/// the shared secret each hop derived (`PendingHTLCInfo::incoming_shared_secret`)
	pub secrets: Vec<[u8; 32]>,
}

fn check_final(exp: &ExpFinal, info: &PendingHTLCInfo, incoming: (u64, u32), multi_hop_blinded: bool, out: &mut Vec<Mismatch>) {
	if info.outgoing_amt_msat != exp.amt {
		out.push(mm("final-amount", format!("final hop was told amount {} but the route pays {}", info.outgoing_amt_msat, exp.amt)));
	}
	if info.outgoing_cltv_value != exp.cltv {
		out.push(mm("final-expiry", format!("final hop was told expiry {} but the route implies {}", info.outgoing_cltv_value, exp.cltv)));
	}
	if info.incoming_amt_msat != Some(incoming.0) {
		out.push(mm("final-incoming", format!("incoming amount {:?} != {}", info.incoming_amt_msat, incoming.0)));
	}
	let (pd, meta, custom, ks, cltv_in, blinded_err) = match &info.routing {
		PendingHTLCRouting::Receive { payment_data, payment_metadata, custom_tlvs, incoming_cltv_expiry, requires_blinded_error, payment_context, .. } => {
			if payment_context.is_some() != exp.blinded {
				out.push(mm("final-context", format!("payment_context present={} on a path with blinded={}", payment_context.is_some(), exp.blinded)));
			}
			(Some((payment_data.payment_secret.0, payment_data.total_msat)), payment_metadata.clone(), custom_tlvs.clone(), None, *incoming_cltv_expiry, *requires_blinded_error)
		},
		PendingHTLCRouting::ReceiveKeysend { payment_data, payment_metadata, custom_tlvs, payment_preimage, incoming_cltv_expiry, requires_blinded_error, .. } => (
			payment_data.as_ref().map(|d| (d.payment_secret.0, d.total_msat)),
			payment_metadata.clone(),
			custom_tlvs.clone(),
			Some(payment_preimage.0),
			*incoming_cltv_expiry,
			*requires_blinded_error,
		),
		_ => {
			out.push(mm("final-recognition", "the last hop did not recognise itself as the final hop".into()));
			return;
		},
	};
	if ks != exp.keysend {
		out.push(mm("final-keysend", format!("keysend preimage {:?} != {:?}", ks.map(|k| mc_common::hex(&k)), exp.keysend.map(|k| mc_common::hex(&k)))));
	}
	let exp_pd = exp.secret.map(|s| (s, exp.total));
	if pd != exp_pd {
		out.push(mm(
			"final-payment-data",
			format!("payment secret/total {:?} != {:?}", pd.map(|(s, t)| (mc_common::hex(&s), t)), exp_pd.map(|(s, t)| (mc_common::hex(&s), t))),
		));
	}
	if meta != exp.metadata {
		out.push(mm("final-metadata", format!("metadata len {:?} != {:?}", meta.as_ref().map(|m| m.len()), exp.metadata.as_ref().map(|m| m.len()))));
	}
	if custom != exp.custom {
		out.push(mm("final-custom-tlvs", format!("custom TLV types {:?} != {:?}", custom.iter().map(|(t, v)| (*t, v.len())).collect::<Vec<_>>(), exp.custom.iter().map(|(t, v)| (*t, v.len())).collect::<Vec<_>>())));
	}
	if cltv_in != incoming.1 {
		out.push(mm("final-incoming", format!("incoming expiry {} != {}", cltv_in, incoming.1)));
	}
	if blinded_err != multi_hop_blinded {
		out.push(mm("final-blinded-flag", format!("requires_blinded_error={} on a path with multi-hop blinded tail={}", blinded_err, multi_hop_blinded)));
	}
}

/// Peels the onion with `peel_payment_onion` under each hop's node signer and compares every hop
/// with the route. Returns the per-hop messages and secrets when the walk reached the final hop.
pub fn walk_peel(w: &World, c: &Case, first: &OnionPacket, htlc: (u64, u32), out: &mut Vec<Mismatch>) -> Option<Walk> {
	let h = c.hops_total();
	let n = c.spec.n;
	let b = c.spec.blinded;
	let bytes = packet_bytes(first);
	if bytes.len() != PACKET_LEN {
		out.push(mm("packet-size", format!("first packet is {} bytes", bytes.len())));
		return None;
	}
	let mut msg = update_add(htlc.0, htlc.1, c.payment_hash, packet_from_bytes(&bytes)?, None);
	let mut walk = Walk { msgs: Vec::new(), secrets: Vec::new() };
	for i in 0..h {
		if (msg.amount_msat, msg.cltv_expiry) != c.exp_in[i] {
			out.push(mm("htlc-in", format!("hop {} receives ({}, {}) but the route implies {:?}", i, msg.amount_msat, msg.cltv_expiry, c.exp_in[i])));
		}
		let info = match peel(w, i, &msg, c.cur_height) {
			Ok(info) => info,
			Err(e) => {
				out.push(mm("peel-rejected", format!("hop {} of {} rejected an untampered onion: {:?} {} (data {} bytes)", i, h, e.reason, e.msg, e.err_data.len())));
				return None;
			},
		};
		if info.payment_hash != c.payment_hash {
			out.push(mm("payment-hash", format!("hop {} reports a different payment hash", i)));
		}
		walk.msgs.push(msg.clone());
		walk.secrets.push(info.incoming_shared_secret);
		if i == h - 1 {
			check_final(&c.exp_final, &info, c.exp_in[i], b >= 2, out);
			return Some(walk);
		}
		let e = &c.exp_fwd[i];
		match &info.routing {
			PendingHTLCRouting::Forward { onion_packet, short_channel_id, blinded, incoming_cltv_expiry, .. } => {
				if *short_channel_id != e.scid {
					out.push(mm("forward-scid", format!("hop {} of {}: next channel {:#x} != {:#x}", i, h, short_channel_id, e.scid)));
				}
				if info.outgoing_amt_msat != e.amt {
					out.push(mm("forward-amount", format!("hop {} of {}: amount to forward {} != {}", i, h, info.outgoing_amt_msat, e.amt)));
				}
				if info.outgoing_cltv_value != e.cltv {
					out.push(mm("forward-expiry", format!("hop {} of {}: outgoing expiry {} != {}", i, h, info.outgoing_cltv_value, e.cltv)));
				}
				if *incoming_cltv_expiry != Some(msg.cltv_expiry) || info.incoming_amt_msat != Some(msg.amount_msat) {
					out.push(mm("forward-incoming", format!("hop {}: incoming fields {:?}/{:?}", i, incoming_cltv_expiry, info.incoming_amt_msat)));
				}
				let nb = packet_bytes(onion_packet);
				if nb.len() != PACKET_LEN || onion_packet.version != 0 {
					out.push(mm("packet-size", format!("hop {} emits a packet of {} bytes, version {}", i, nb.len(), onion_packet.version)));
					return None;
				}
				// BOLT 4 key blinding, computed by the harness
				let pk_in = msg.onion_routing_packet.public_key.ok()?;
				let want = bolt4_next_pubkey(&w.secp, &pk_in, &info.incoming_shared_secret);
				if onion_packet.public_key.ok() != want {
					out.push(mm("next-ephemeral-key", format!("hop {}: next ephemeral key differs from pk*SHA256(pk||ss)", i)));
				}
				// blinding point for the next hop: what ChannelManager computes when relaying
				let mut next_bp = None;
				match (e.blinded, blinded) {
					(false, None) => {},
					(true, Some(bf)) => {
						let intro = i == n - 1;
						let want_fail = if intro { BlindedFailure::FromIntroductionNode } else { BlindedFailure::FromBlindedNode };
						if bf.failure != want_fail {
							out.push(mm("blinded-forward", format!("hop {}: failure mode {:?}", i, bf.failure)));
						}
						if intro && Some(bf.inbound_blinding_point) != c.blinding_point {
							out.push(mm("blinded-forward", format!("intro hop {} does not report the path's blinding point", i)));
						}
						let ss = w.signers[i].ecdh(Recipient::Node, &bf.inbound_blinding_point, None).ok()?.secret_bytes();
						next_bp = bf.next_blinding_override.or(bolt4_next_pubkey(&w.secp, &bf.inbound_blinding_point, &ss));
					},
					(eb, got) => {
						out.push(mm("blinded-forward", format!("hop {}: expected blinded={} got {:?}", i, eb, got.is_some())));
					},
				}
				msg = update_add(info.outgoing_amt_msat, info.outgoing_cltv_value, c.payment_hash, packet_from_bytes(&nb)?, next_bp);
			},
			_ => {
				out.push(mm("forward-recognition", format!("hop {} of {} did not get forwarding instructions", i, h)));
				return None;
			},
		}
	}
	None
}

/// Peels with `decode_next_payment_hop` (hook H3) – no relay policy, so every amount/expiry value
/// is reachable. Unblinded paths only. Returns the per-hop (ephemeral key, hop data, hmac).
pub fn walk_raw(w: &World, c: &Case, first: &OnionPacket, out: &mut Vec<Mismatch>) -> Option<(Vec<Vec<u8>>, Vec<[u8; 32]>)> {
	let h = c.hops_total();
	let mut pk = first.public_key.ok()?;
	let mut data: Vec<u8> = first.hop_data.to_vec();
	let mut hmac = first.hmac;
	let mut packets = Vec::new();
	let mut secrets = Vec::new();
	for i in 0..h {
		let mut wire = vec![0u8];
		wire.extend_from_slice(&pk.serialize());
		wire.extend_from_slice(&data);
		wire.extend_from_slice(&hmac);
		packets.push(wire);
		let hop = match verif_decode_next_payment_hop(&pk, &data, hmac, c.payment_hash, None, &w.signers[i]) {
			Ok(hop) => hop,
			Err((malformed, reason)) => {
				out.push(mm("decode-rejected", format!("hop {} of {} rejected an untampered onion: malformed={} {:?}", i, h, malformed, reason)));
				return None;
			},
		};
		match hop {
			VerifHop::Forward { short_channel_id, amt_to_forward, outgoing_cltv_value, shared_secret, next_hop_hmac, new_packet_bytes } => {
				if i == h - 1 {
					out.push(mm("final-recognition", format!("the last hop ({}) got forwarding instructions", i)));
					return None;
				}
				let e = &c.exp_fwd[i];
				if short_channel_id != e.scid {
					out.push(mm("forward-scid", format!("hop {} of {}: next channel {:#x} != {:#x}", i, h, short_channel_id, e.scid)));
				}
				if amt_to_forward != e.amt {
					out.push(mm("forward-amount", format!("hop {} of {}: amount to forward {} != {}", i, h, amt_to_forward, e.amt)));
				}
				if outgoing_cltv_value != e.cltv {
					out.push(mm("forward-expiry", format!("hop {} of {}: outgoing expiry {} != {}", i, h, outgoing_cltv_value, e.cltv)));
				}
				if new_packet_bytes.len() != ONION_DATA_LEN {
					out.push(mm("packet-size", format!("hop {} emits {} bytes of hop data", i, new_packet_bytes.len())));
					return None;
				}
				secrets.push(shared_secret);
				pk = match bolt4_next_pubkey(&w.secp, &pk, &shared_secret) {
					Some(p) => p,
					None => return None,
				};
				data = new_packet_bytes;
				hmac = next_hop_hmac;
			},
			VerifHop::Receive { payment_data, payment_metadata, keysend_preimage, custom_tlvs, sender_intended_htlc_amt_msat, cltv_expiry_height, shared_secret } => {
				secrets.push(shared_secret);
				if i != h - 1 {
					out.push(mm("forward-recognition", format!("hop {} of {} believes it is the final hop", i, h)));
					return None;
				}
				let e = &c.exp_final;
				if sender_intended_htlc_amt_msat != e.amt {
					out.push(mm("final-amount", format!("final hop was told amount {} but the route pays {}", sender_intended_htlc_amt_msat, e.amt)));
				}
				if cltv_expiry_height != e.cltv {
					out.push(mm("final-expiry", format!("final hop was told expiry {} but the route implies {}", cltv_expiry_height, e.cltv)));
				}
				if payment_data.map(|(s, t)| (s.0, t)) != e.secret.map(|s| (s, e.total)) {
					out.push(mm("final-payment-data", "payment secret/total differ".into()));
				}
				if payment_metadata != e.metadata {
					out.push(mm("final-metadata", format!("metadata len {:?} != {:?}", payment_metadata.as_ref().map(|m| m.len()), e.metadata.as_ref().map(|m| m.len()))));
				}
				if keysend_preimage.map(|p| p.0) != e.keysend {
					out.push(mm("final-keysend", "keysend preimage differs".into()));
				}
				if custom_tlvs != e.custom {
					out.push(mm("final-custom-tlvs", format!("custom TLV types {:?}", custom_tlvs.iter().map(|(t, v)| (*t, v.len())).collect::<Vec<_>>())));
				}
				return Some((packets, secrets));
			},
			VerifHop::Other(name) => {
				out.push(mm("forward-recognition", format!("hop {} of {} decoded an unexpected payload kind {}", i, h, name)));
				return None;
			},
		}
	}
	None
}

/// The complete delivery check of one case. `fit_only`: skip peeling (used for the n+1 probes).
pub fn check_delivery(w: &World, c: &Case, st: &mut Stats) -> (Vec<Mismatch>, Option<u128>) {
	let mut out = Vec::new();
	st.inc("deliver_cases");
	st.inc(&format!("deliver_final_{}", c.spec.fin.family()));
	if c.spec.blinded > 0 {
		st.inc(&format!("deliver_blinded_tail_{}", c.spec.blinded));
	}
	let built = construct(w, c);
	let fits = c.fits();
	match (&built, fits) {
		(Ok(_), false) => {
			out.push(mm("oversize-accepted", format!("payloads need {} > 1300 bytes (per hop {:?}) but an onion was built", c.predicted_total, c.payload_lens)));
			return (out, None);
		},
		(Err(e), true) => {
			out.push(mm("fitting-route-refused", format!("payloads need {} <= 1300 bytes (per hop {:?}) but construction failed: {}", c.predicted_total, c.payload_lens, e)));
			return (out, None);
		},
		(Err(_), false) => {
			st.inc("deliver_refused_oversize");
			return (out, None);
		},
		(Ok(_), true) => {},
	}
	let (packet, msat, cltv) = built.unwrap();
	st.inc("deliver_constructed");
	st.max("max_path_len_constructed", c.hops_total() as u64);
	if c.predicted_total == ONION_DATA_LEN {
		st.inc("deliver_filled_to_the_byte");
	}
	if (msat, cltv) != c.exp_in[0] {
		out.push(mm("first-htlc", format!("sender computes first HTLC ({}, {}) but the route implies {:?}", msat, cltv, c.exp_in[0])));
	}
	let digest = mc_common::digest128(&packet_bytes(&packet));
	let mut ok = true;
	let mut raw_packets = None;
	if c.spec.blinded == 0 {
		let before = out.len();
		raw_packets = walk_raw(w, c, &packet, &mut out);
		st.inc("deliver_walk_raw");
		if raw_packets.is_none() || out.len() != before {
			ok = false;
		} else {
			st.add("deliver_hops_decoded_raw", c.hops_total() as u64);
		}
	}
	if c.peel_admissible {
		let before = out.len();
		let walk = walk_peel(w, c, &packet, c.exp_in[0], &mut out);
		st.inc("deliver_walk_peel");
		match &walk {
			Some(wk) if out.len() == before => {
				st.add("deliver_hops_peeled", c.hops_total() as u64);
				st.max("max_path_len_peeled", c.hops_total() as u64);
				if let Some((rp, rs)) = &raw_packets {
					if *rs != wk.secrets {
						out.push(mm("peel-vs-decode", "shared secrets differ between peel_payment_onion and decode_next_payment_hop".into()));
						ok = false;
					}
					for (i, m) in wk.msgs.iter().enumerate() {
						if packet_bytes(&m.onion_routing_packet) != rp[i] {
							out.push(mm("peel-vs-decode", format!("hop {}: packets differ between peel_payment_onion and decode_next_payment_hop", i)));
							ok = false;
						}
					}
				}
			},
			_ => ok = false,
		}
	} else if c.spec.fin == Fin::Bare && c.spec.cltv != 0 && c.spec.blinded == 0 {
		// the public API refuses a payment without secret/keysend at the last hop (policy, after
		// the onion was decoded): observe it, it is not part of the property
		let mut scratch = Vec::new();
		if walk_peel(w, c, &packet, c.exp_in[0], &mut scratch).is_none() && scratch.iter().any(|(o, d)| o == "peel-rejected" && d.contains("PaymentSecretRequired")) {
			st.inc("deliver_bare_refused_by_policy");
		}
	}
	if ok && out.is_empty() {
		st.inc("deliver_fully_matched");
		st.max("max_path_len_delivered", c.hops_total() as u64);
		(out, Some(digest))
	} else {
		(out, None)
	}
}
