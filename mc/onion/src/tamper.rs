//! Family 2: single-bit corruptions of the onion packet / payment hash in flight.
use crate::case::*;
use crate::deliver::*;
use crate::world::*;
use lightning::types::payment::PaymentHash;

/// Bits of the 1366-byte wire packet to flip. Quick: every bit of version, ephemeral key and
/// HMAC, and bit `k % 8` of hop-data byte `k` (so every byte and every bit position is hit).
pub fn packet_bits(all: bool) -> Vec<usize> {
	let mut v = Vec::new();
	for byte in 0..PACKET_LEN {
		let hop_data = byte >= 34 && byte < 34 + ONION_DATA_LEN;
		for bit in 0..8 {
			if all || !hop_data || bit == (byte - 34) % 8 {
				v.push(byte * 8 + bit);
			}
		}
	}
	v
}

pub enum Flip {
	Packet(usize),
	Hash(usize),
}

/// Applies one flip to the message hop `i` receives and asks the hop to peel it.
/// Ok(()) = rejected as required; Err(detail) = the hop produced instructions.
pub fn try_flip(w: &World, c: &Case, walk: &Walk, hop: usize, flip: &Flip, st: &mut Stats) -> Result<(), String> {
	let base = &walk.msgs[hop];
	let mut msg = base.clone();
	match flip {
		Flip::Packet(bit) => {
			let mut bytes = packet_bytes(&base.onion_routing_packet);
			bytes[bit / 8] ^= 1 << (bit % 8);
			msg.onion_routing_packet = match packet_from_bytes(&bytes) {
				Some(p) => p,
				None => {
					st.inc("tamper_rejected_at_wire_decode");
					return Ok(());
				},
			};
		},
		Flip::Hash(bit) => {
			let mut h = base.payment_hash.0;
			h[bit / 8] ^= 1 << (bit % 8);
			msg.payment_hash = PaymentHash(h);
		},
	}
	match peel(w, hop, &msg, c.cur_height) {
		Err(e) => {
			st.inc("tamper_rejected");
			st.inc(&format!("tamper_reject_reason_{:?}", e.reason));
			Ok(())
		},
		Ok(info) => Err(format!(
			"hop {} of {} accepted a corrupted {} and produced instructions (amount {}, expiry {})",
			hop,
			c.hops_total(),
			match flip {
				Flip::Packet(b) => format!("packet (bit {} of byte {})", b % 8, b / 8),
				Flip::Hash(b) => format!("payment hash (bit {})", b),
			},
			info.outgoing_amt_msat,
			info.outgoing_cltv_value
		)),
	}
}

/// All flips at one hop of one case. Returns mismatches as (oracle, detail, flip description).
pub fn check_tamper_hop(w: &World, c: &Case, walk: &Walk, hop: usize, all_bits: bool, st: &mut Stats) -> Vec<(Mismatch, mc_common::Value)> {
	let mut out = Vec::new();
	for bit in packet_bits(all_bits) {
		st.inc("tamper_cases");
		st.inc(if bit < 8 {
			"tamper_version_bits"
		} else if bit < 34 * 8 {
			"tamper_ephemeral_key_bits"
		} else if bit < (34 + ONION_DATA_LEN) * 8 {
			"tamper_hop_data_bits"
		} else {
			"tamper_hmac_bits"
		});
		if let Err(d) = try_flip(w, c, walk, hop, &Flip::Packet(bit), st) {
			if out.len() < 4 {
				out.push((mm("corrupted-packet-accepted", d), mc_common::json!({"hop": hop, "packet_bit": bit})));
			}
		}
	}
	for bit in 0..256 {
		st.inc("tamper_cases");
		st.inc("tamper_payment_hash_bits");
		if let Err(d) = try_flip(w, c, walk, hop, &Flip::Hash(bit), st) {
			if out.len() < 8 {
				out.push((mm("corrupted-payment-hash-accepted", d), mc_common::json!({"hop": hop, "hash_bit": bit})));
			}
		}
	}
	out
}
