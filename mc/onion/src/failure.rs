//! Families 3-5: failure packets (build at hop p, re-wrap upstream, decode at the sender),
//! corruption of failure packets in flight, and fulfil attribution data (hold times).
use crate::case::*;
use crate::world::*;
use lightning::ln::onion_utils::verif_hooks::*;
use lightning::ln::onion_utils::{AttributionData, LocalHTLCFailureReason};
use lightning::routing::gossip::NetworkUpdate;
use lightning::util::ser::{Readable, Writeable};
use mc_common::{json, Value};
use LocalHTLCFailureReason as R;

pub const MAX_ATTRIBUTABLE_HOPS: usize = 20;
const BADONION: u16 = 0x8000;
const PERM: u16 = 0x4000;
const NODE: u16 = 0x2000;
const UPDATE: u16 = 0x1000;

/// BOLT 4 failure codes, written from the specification (and the documented mapping of LDK's
/// local-only reasons onto them) – the oracle for "with its original failure code".
pub fn bolt4_code(r: &R) -> u16 {
	match r {
		R::TemporaryNodeFailure | R::ForwardExpiryBuffer => NODE | 2,
		R::PermanentNodeFailure => PERM | NODE | 2,
		R::RequiredNodeFeature | R::PaymentSecretRequired => PERM | NODE | 3,
		R::InvalidOnionVersion => BADONION | PERM | 4,
		R::InvalidOnionHMAC => BADONION | PERM | 5,
		R::InvalidOnionKey => BADONION | PERM | 6,
		R::TemporaryChannelFailure
		| R::DustLimitHolder
		| R::DustLimitCounterparty
		| R::FeeSpikeBuffer
		| R::ChannelNotReady
		| R::ZeroAmount
		| R::HTLCMinimum
		| R::HTLCMaximum
		| R::PeerOffline
		| R::ChannelBalanceOverdrawn => UPDATE | 7,
		R::PermanentChannelFailure | R::ChannelClosed | R::OnChainTimeout => PERM | 8,
		R::RequiredChannelFeature => PERM | 9,
		R::UnknownNextPeer | R::PrivateChannelForward | R::RealSCIDForward | R::InvalidTrampolineForward => PERM | 10,
		R::AmountBelowMinimum => UPDATE | 11,
		R::FeeInsufficient => UPDATE | 12,
		R::IncorrectCLTVExpiry => UPDATE | 13,
		R::CLTVExpiryTooSoon | R::OutgoingCLTVTooSoon => UPDATE | 14,
		R::IncorrectPaymentDetails | R::PaymentClaimBuffer | R::InvalidKeysendPreimage => PERM | 15,
		R::FinalIncorrectCLTVExpiry => 18,
		R::FinalIncorrectHTLCAmount => 19,
		R::ChannelDisabled => UPDATE | 20,
		R::CLTVExpiryTooFar => 21,
		R::InvalidOnionPayload | R::InvalidTrampolinePayload => PERM | 22,
		R::MPPTimeout => 23,
		R::InvalidOnionBlinding => BADONION | PERM | 24,
		R::TemporaryTrampolineFailure => NODE | 25,
		R::TrampolineFeeOrExpiryInsufficient => NODE | 26,
		R::UnknownNextTrampoline => PERM | 27,
		R::UnknownFailureCode { code } => *code,
	}
}

pub fn named_reasons() -> Vec<R> {
	vec![
		R::TemporaryNodeFailure,
		R::PermanentNodeFailure,
		R::RequiredNodeFeature,
		R::InvalidOnionVersion,
		R::InvalidOnionHMAC,
		R::InvalidOnionKey,
		R::TemporaryChannelFailure,
		R::PermanentChannelFailure,
		R::RequiredChannelFeature,
		R::UnknownNextPeer,
		R::AmountBelowMinimum,
		R::FeeInsufficient,
		R::IncorrectCLTVExpiry,
		R::CLTVExpiryTooSoon,
		R::IncorrectPaymentDetails,
		R::FinalIncorrectCLTVExpiry,
		R::FinalIncorrectHTLCAmount,
		R::ChannelDisabled,
		R::CLTVExpiryTooFar,
		R::InvalidOnionPayload,
		R::MPPTimeout,
		R::InvalidOnionBlinding,
		R::ForwardExpiryBuffer,
		R::InvalidTrampolineForward,
		R::PaymentClaimBuffer,
		R::DustLimitHolder,
		R::DustLimitCounterparty,
		R::FeeSpikeBuffer,
		R::PrivateChannelForward,
		R::RealSCIDForward,
		R::ChannelNotReady,
		R::InvalidKeysendPreimage,
		R::InvalidTrampolinePayload,
		R::PaymentSecretRequired,
		R::OutgoingCLTVTooSoon,
		R::ChannelClosed,
		R::OnChainTimeout,
		R::ZeroAmount,
		R::HTLCMinimum,
		R::HTLCMaximum,
		R::PeerOffline,
		R::ChannelBalanceOverdrawn,
		R::TemporaryTrampolineFailure,
		R::TrampolineFeeOrExpiryInsufficient,
		R::UnknownNextTrampoline,
	]
}

/// Reasons for the "local" origin (through `HTLCFailReason::reason`, whose debug assertions
/// admit unknown codes only with the BADONION bit).
pub fn local_reasons() -> Vec<R> {
	let mut v = named_reasons();
	v.push(R::UnknownFailureCode { code: BADONION | PERM | 99 });
	v
}

/// Reasons for the "raw" origin (`build_failure_packet` directly: any code).
pub fn raw_reasons() -> Vec<R> {
	let mut v = local_reasons();
	for code in [0u16, 1, NODE | 99, PERM | 99, UPDATE | 99, PERM | NODE | 99, 0xffff] {
		v.push(R::UnknownFailureCode { code });
	}
	v
}

fn pattern(len: usize, salt: u8) -> Vec<u8> {
	(0..len).map(|i| (i as u8).wrapping_mul(31).wrapping_add(salt)).collect()
}

fn with_update(prefix: usize, l: usize, salt: u8) -> Vec<u8> {
	let mut v = pattern(prefix, salt);
	v.extend_from_slice(&(l as u16).to_be_bytes());
	v.extend_from_slice(&pattern(l, salt.wrapping_add(1)));
	v
}

/// Failure data shapes that `HTLCFailReason::reason` admits for `r` (its debug assertions encode
/// the BOLT 4 field layout); `lens` are the lengths of the variable part where there is one.
pub fn local_datas(r: &R, lens: &[usize], salt: u8) -> Vec<Vec<u8>> {
	match r {
		R::TemporaryNodeFailure
		| R::ForwardExpiryBuffer
		| R::PermanentNodeFailure
		| R::RequiredNodeFeature
		| R::PaymentSecretRequired
		| R::PermanentChannelFailure
		| R::OnChainTimeout
		| R::ChannelClosed
		| R::RequiredChannelFeature
		| R::UnknownNextPeer
		| R::PrivateChannelForward
		| R::RealSCIDForward
		| R::InvalidTrampolineForward
		| R::CLTVExpiryTooFar
		| R::MPPTimeout
		| R::TemporaryTrampolineFailure
		| R::UnknownNextTrampoline => vec![vec![]],
		R::InvalidOnionVersion | R::InvalidOnionHMAC | R::InvalidOnionKey | R::InvalidOnionBlinding => vec![pattern(32, salt)],
		R::TemporaryChannelFailure
		| R::DustLimitHolder
		| R::DustLimitCounterparty
		| R::FeeSpikeBuffer
		| R::ChannelNotReady
		| R::ZeroAmount
		| R::HTLCMinimum
		| R::HTLCMaximum
		| R::PeerOffline
		| R::ChannelBalanceOverdrawn
		| R::CLTVExpiryTooSoon
		| R::OutgoingCLTVTooSoon => lens.iter().map(|l| with_update(0, *l, salt)).collect(),
		R::AmountBelowMinimum | R::FeeInsufficient => lens.iter().map(|l| with_update(8, *l, salt)).collect(),
		R::IncorrectCLTVExpiry => lens.iter().map(|l| with_update(4, *l, salt)).collect(),
		R::ChannelDisabled => lens.iter().map(|l| with_update(2, *l, salt)).collect(),
		R::IncorrectPaymentDetails | R::PaymentClaimBuffer | R::InvalidKeysendPreimage => vec![pattern(12, salt)],
		R::FinalIncorrectCLTVExpiry => vec![pattern(4, salt)],
		R::FinalIncorrectHTLCAmount => vec![pattern(8, salt)],
		R::InvalidOnionPayload | R::InvalidTrampolinePayload => vec![vec![], pattern(1, salt), pattern(11, salt)],
		R::TrampolineFeeOrExpiryInsufficient => vec![pattern(10, salt)],
		R::UnknownFailureCode { .. } => lens.iter().map(|l| pattern(*l, salt)).collect(),
	}
}

pub fn hold_time(i: usize) -> u32 {
	1000 * (i as u32 + 1) + 7
}

#[derive(Clone, Debug)]
pub enum Origin {
	/// `HTLCFailReason::reason(..).get_encrypted_failure_packet(..)` – reports hold time 0
	Local,
	/// `build_failure_packet(..)` with an explicit hold time
	Raw(u32),
}

#[derive(Clone, Debug)]
pub enum FailFlip {
	Data(usize),
	Attr(usize),
}

/// The two fields of an `update_fail_htlc` that travel back along the path.
#[derive(Clone, Debug)]
pub struct FailMsg {
	pub reason: Vec<u8>,
	pub attribution_data: Option<AttributionData>,
}

fn fail_msg(data: Vec<u8>, ad: Option<AttributionData>) -> FailMsg {
	FailMsg { reason: data, attribution_data: ad }
}

pub fn flip_attr(ad: &AttributionData, bit: usize) -> Option<AttributionData> {
	let mut b = ad.encode();
	if bit / 8 >= b.len() {
		return None;
	}
	b[bit / 8] ^= 1 << (bit % 8);
	let mut cur = lightning::io::Cursor::new(&b[..]);
	Readable::read(&mut cur).ok()
}

fn apply_flip(msg: &mut FailMsg, flip: &FailFlip) -> bool {
	match flip {
		FailFlip::Data(bit) => {
			if bit / 8 >= msg.reason.len() {
				return false;
			}
			msg.reason[bit / 8] ^= 1 << (bit % 8);
			true
		},
		FailFlip::Attr(bit) => match msg.attribution_data.as_ref().and_then(|a| flip_attr(a, *bit)) {
			Some(a) => {
				msg.attribution_data = Some(a);
				true
			},
			None => false,
		},
	}
}

/// The failure built at hop `p` and every re-wrapped version of it: element `i` is the message
/// emitted by hop `i` (towards hop `i-1`, or towards the sender for `i = 0`), for `i <= p`.
pub fn failure_chain(secrets: &[[u8; 32]], p: usize, origin: &Origin, reason: R, data: &[u8]) -> Vec<FailMsg> {
	let (d, ad) = match origin {
		Origin::Local => verif_fail_htlc_locally(reason, data.to_vec(), &secrets[p], &None),
		Origin::Raw(h) => verif_build_failure_packet(&secrets[p], reason, data, *h),
	};
	let mut chain = vec![fail_msg(d, ad)];
	for i in (0..p).rev() {
		let next = relay_once(secrets, i, chain.last().unwrap());
		chain.push(next);
	}
	chain.reverse();
	chain
}

fn relay_once(secrets: &[[u8; 32]], i: usize, msg: &FailMsg) -> FailMsg {
	let (d, ad) = verif_relay_failure(&msg.reason, &msg.attribution_data, Some(hold_time(i)), &secrets[i]);
	fail_msg(d, ad)
}

/// Builds the failure at hop `p`, lets hops p-1..0 re-wrap it, returns what the sender receives.
pub fn failure_roundtrip(secrets: &[[u8; 32]], p: usize, origin: &Origin, reason: R, data: &[u8]) -> FailMsg {
	failure_chain(secrets, p, origin, reason, data).swap_remove(0)
}

/// The message emitted by hop `m` (`chain[m]`) is corrupted in flight, then re-wrapped by the
/// honest hops m-1..0. None if the flip position does not exist.
pub fn tampered_roundtrip(secrets: &[[u8; 32]], chain: &[FailMsg], m: usize, flip: &FailFlip) -> Option<FailMsg> {
	let mut msg = chain[m].clone();
	if !apply_flip(&mut msg, flip) {
		return None;
	}
	for i in (0..m).rev() {
		msg = relay_once(secrets, i, &msg);
	}
	Some(msg)
}

pub fn decode_failure(w: &World, c: &Case, msg: &FailMsg) -> VerifDecodedFailure {
	verif_decode_onion_failure(&w.secp, &NullLogger, &c.path, &c.session_priv, &msg.reason, &msg.attribution_data)
}

/// Hold times the sender must read for a failure that originated at hop `p`.
pub fn expected_hold_times(c: &Case, p: usize, origin: &Origin) -> Vec<u32> {
	let n = c.spec.n;
	let a = n.min(MAX_ATTRIBUTABLE_HOPS);
	let intro_multi = c.spec.blinded >= 2 && p == n - 1;
	let mut v = Vec::new();
	for i in 0..=p {
		if i >= a || (intro_multi && i == p) {
			break;
		}
		v.push(if i == p {
			match origin {
				Origin::Local => 0,
				Origin::Raw(h) => *h,
			}
		} else {
			hold_time(i)
		});
	}
	v
}

fn unattributed(d: &VerifDecodedFailure) -> bool {
	d.onion_error_code.is_none() && d.onion_error_data.is_none() && d.short_channel_id.is_none() && d.network_update.is_none() && !d.failed_within_blinded_path
}

/// Attribution oracle for an untampered failure from hop `p` (an unblinded hop of the path).
pub fn check_attribution(c: &Case, p: usize, origin: &Origin, reason: &R, data: &[u8], d: &VerifDecodedFailure, out: &mut Vec<Mismatch>) {
	let n = c.spec.n;
	let hops = &c.path.hops;
	let want_holds = expected_hold_times(c, p, origin);
	if d.hold_times != want_holds {
		out.push(mm("failure-hold-times", format!("failure from hop {} of {}: hold times {:?} != inserted {:?}", p, n, d.hold_times, want_holds)));
	}
	if c.spec.blinded >= 2 && p == n - 1 {
		// from the introduction node of a multi-hop blinded tail: not attributable by design
		if !d.failed_within_blinded_path {
			out.push(mm("failure-blinded", format!("failure from the introduction node (hop {}) not flagged as inside the blinded path", p)));
		}
		return;
	}
	let is_final = p == n - 1;
	let want_code = bolt4_code(reason);
	let got_code = d.onion_error_code.map(verif_failure_code);
	if got_code != Some(want_code) {
		out.push(mm("failure-code", format!("failure {:?} ({:#06x}) from hop {} of {} decoded as {:?} ({:?})", reason, want_code, p, n, d.onion_error_code, got_code.map(|c| format!("{:#06x}", c)))));
		return;
	}
	if d.onion_error_code != Some(R::from(want_code)) {
		out.push(mm("failure-code", format!("code {:#06x} surfaced as {:?}", want_code, d.onion_error_code)));
	}
	if d.onion_error_data.as_deref() != Some(data) {
		out.push(mm("failure-data", format!("failure {:?} from hop {} of {}: data of {} bytes came back as {:?} bytes", reason, p, n, data.len(), d.onion_error_data.as_ref().map(|x| x.len()))));
	}
	let in_chan = hops[p].short_channel_id;
	let out_chan = if is_final { None } else { Some(hops[p + 1].short_channel_id) };
	match &d.network_update {
		Some(NetworkUpdate::NodeFailure { node_id, .. }) => {
			if *node_id != hops[p].pubkey {
				let who = hops.iter().position(|h| h.pubkey == *node_id);
				out.push(mm("failure-attribution", format!("failure {:?} from hop {} of {} blamed on node at hop {:?}", reason, p, n, who)));
			}
		},
		Some(NetworkUpdate::ChannelFailure { short_channel_id, .. }) => {
			let want = out_chan.unwrap_or(in_chan);
			if *short_channel_id != want {
				let who = hops.iter().position(|h| h.short_channel_id == *short_channel_id);
				out.push(mm("failure-attribution", format!("failure {:?} from hop {} of {} blamed on the channel into hop {:?} (expected the channel {} hop {})", reason, p, n, who, if is_final { "into" } else { "out of" }, p)));
			}
		},
		None => {},
	}
	// "attributed by the sender to that hop": a failure that an intermediate hop produced must leave the
	// sender with something that points at that hop - a network update or at least a channel to avoid
	if !is_final && d.network_update.is_none() && d.short_channel_id.is_none() {
		out.push(mm("failure-attribution", format!("failure {:?} ({:#06x}) from intermediate hop {} of {} is attributed to nobody (no network update, no channel)", reason, want_code, p, n)));
	}
	if let Some(s) = d.short_channel_id {
		if s != in_chan && Some(s) != out_chan {
			let who = hops.iter().position(|h| h.short_channel_id == s);
			out.push(mm("failure-attribution", format!("failure {:?} from hop {} of {} reported with the channel into hop {:?}", reason, p, n, who)));
		}
	}
	let want_perm = (want_code & PERM != 0) && is_final;
	if d.payment_failed_permanently != want_perm {
		out.push(mm("failure-finality", format!("failure {:?} from hop {} of {} (final={}): payment_failed_permanently={}", reason, p, n, is_final, d.payment_failed_permanently)));
	}
	if d.failed_within_blinded_path {
		out.push(mm("failure-blinded", format!("failure from unblinded hop {} flagged as inside a blinded path", p)));
	}
}

/// Oracle for a failure corrupted in flight after hop `m` emitted it: the sender either still
/// attributes it exactly as the untampered one, or attributes it to nobody; reported hold times
/// are a prefix of the truth that includes every honest hop upstream of the corruption.
pub fn check_tampered(c: &Case, p: usize, m: usize, clean: &VerifDecodedFailure, d: &VerifDecodedFailure, out: &mut Vec<Mismatch>, st: &mut Stats) {
	let same = d.onion_error_code == clean.onion_error_code
		&& d.onion_error_data == clean.onion_error_data
		&& d.short_channel_id == clean.short_channel_id
		&& d.network_update == clean.network_update
		&& d.failed_within_blinded_path == clean.failed_within_blinded_path;
	if same {
		st.inc("failtamper_still_attributed_to_origin");
	} else if unattributed(d) {
		st.inc("failtamper_unattributed");
	} else {
		out.push(mm(
			"corrupted-failure-misattributed",
			format!("failure from hop {} corrupted after hop {}: decoded code {:?} scid {:?} update {:?} (clean: {:?} {:?})", p, m, d.onion_error_code, d.short_channel_id, d.network_update, clean.onion_error_code, clean.short_channel_id),
		));
	}
	let a = c.spec.n.min(MAX_ATTRIBUTABLE_HOPS);
	let prefix_ok = d.hold_times.len() <= clean.hold_times.len() && d.hold_times[..] == clean.hold_times[..d.hold_times.len()];
	if !prefix_ok || d.hold_times.len() < m.min(a).min(clean.hold_times.len()) {
		out.push(mm("corrupted-failure-hold-times", format!("failure from hop {} corrupted after hop {}: hold times {:?} vs inserted {:?}", p, m, d.hold_times, clean.hold_times)));
	} else if d.hold_times.len() == clean.hold_times.len() {
		st.inc("failtamper_hold_times_complete");
	} else if d.hold_times.len() == m {
		st.inc("failtamper_hold_times_stop_at_corrupting_hop");
	} else {
		st.inc("failtamper_hold_times_stop_elsewhere");
	}
}

// ---- fulfil attribution ----

/// `start`: the hop that originates the attribution data (H-1 normally; smaller when the hops
/// after it do not support attribution). `final_hold`: the hold time the originator reports.
/// Element `i` of the result is the attribution data emitted by hop `i`, for `i <= start`.
pub fn fulfil_chain(secrets: &[[u8; 32]], start: usize, final_hold: u32) -> Vec<AttributionData> {
	let mut chain = vec![verif_process_fulfill_attribution_data(None, &secrets[start], final_hold)];
	for i in (0..start).rev() {
		let next = verif_process_fulfill_attribution_data(Some(chain.last().unwrap().clone()), &secrets[i], hold_time(i));
		chain.push(next);
	}
	chain.reverse();
	chain
}

/// The data emitted by hop `m` gets bit `bit` flipped in flight; hops m-1..0 process it honestly.
pub fn tampered_fulfil(secrets: &[[u8; 32]], chain: &[AttributionData], m: usize, bit: usize) -> Option<AttributionData> {
	let mut ad = flip_attr(&chain[m], bit)?;
	for i in (0..m).rev() {
		ad = verif_process_fulfill_attribution_data(Some(ad), &secrets[i], hold_time(i));
	}
	Some(ad)
}

pub fn decode_fulfil(w: &World, c: &Case, ad: AttributionData) -> Vec<u32> {
	verif_decode_fulfill_attribution_data(&w.secp, &NullLogger, &c.path, &c.session_priv, ad)
}

pub fn expected_fulfil(c: &Case, start: usize, final_hold: u32) -> Vec<u32> {
	let a = c.spec.n.min(MAX_ATTRIBUTABLE_HOPS);
	(0..=start).take_while(|i| *i < a).map(|i| if i == start { final_hold } else { hold_time(i) }).collect()
}

pub fn reason_json(r: &R) -> Value {
	match r {
		R::UnknownFailureCode { code } => json!({"unknown": code}),
		_ => json!(named_reasons().iter().position(|x| x == r).unwrap_or(usize::MAX)),
	}
}

pub fn reason_from_json(v: &Value) -> Option<R> {
	if let Some(c) = v.get("unknown").and_then(|c| c.as_u64()) {
		return Some(R::UnknownFailureCode { code: c as u16 });
	}
	named_reasons().get(v.as_u64()? as usize).copied()
}
