//! Fixed population of nodes (real `KeysManager` node signers), a silent logger, a fixed entropy
//! source and a statistics accumulator shared by all families.
use bitcoin::hashes::{sha256, Hash, HashEngine};
use bitcoin::secp256k1::{All, PublicKey, Scalar, Secp256k1, SecretKey};
use lightning::sign::{EntropySource, KeysManager, NodeSigner, Recipient};
use lightning::util::logger::{Logger, Record};
use std::collections::BTreeMap;

/// More than the longest path that can fit (27 hops) plus a 3-hop blinded tail.
pub const MAX_NODES: usize = 34;

pub struct World {
	pub secp: Secp256k1<All>,
	pub signers: Vec<KeysManager>,
	pub ids: Vec<PublicKey>,
}

impl World {
	pub fn new() -> World {
		let secp = Secp256k1::new();
		let mut signers = Vec::new();
		let mut ids = Vec::new();
		for i in 0..MAX_NODES {
			let mut seed = [0u8; 32];
			seed[0] = 0xC1;
			seed[1] = 0x4;
			seed[31] = i as u8 + 1;
			let km = KeysManager::new(&seed, 42, 42, true);
			ids.push(km.get_node_id(Recipient::Node).expect("node id"));
			signers.push(km);
		}
		World { secp, signers, ids }
	}
}

pub struct NullLogger;
impl Logger for NullLogger {
	fn log(&self, _record: Record) {}
}

pub struct FixedEntropy(pub [u8; 32]);
impl EntropySource for FixedEntropy {
	fn get_secure_random_bytes(&self) -> [u8; 32] {
		self.0
	}
}

pub fn sha(parts: &[&[u8]]) -> [u8; 32] {
	let mut e = sha256::Hash::engine();
	for p in parts {
		e.input(p);
	}
	sha256::Hash::from_engine(e).to_byte_array()
}

/// BOLT 4: the key the next hop sees is `pk * SHA256(pk || shared_secret)`. Written here from
/// the specification, independently of `onion_utils::next_hop_pubkey`.
pub fn bolt4_next_pubkey(secp: &Secp256k1<All>, pk: &PublicKey, shared_secret: &[u8; 32]) -> Option<PublicKey> {
	let factor = sha(&[&pk.serialize()[..], &shared_secret[..]]);
	let scalar = Scalar::from_be_bytes(factor).ok()?;
	pk.mul_tweak(secp, &scalar).ok()
}

pub fn secret_from(tag: &[u8], i: u64) -> SecretKey {
	let mut ctr = 0u64;
	loop {
		let h = sha(&[tag, &i.to_be_bytes(), &ctr.to_be_bytes()]);
		if let Ok(k) = SecretKey::from_slice(&h) {
			return k;
		}
		ctr += 1;
	}
}

/// Named counters, merged deterministically (BTreeMap) across workers.
#[derive(Default, Clone, Debug)]
pub struct Stats(pub BTreeMap<String, u64>);
impl Stats {
	pub fn inc(&mut self, k: &str) {
		self.add(k, 1);
	}
	pub fn add(&mut self, k: &str, n: u64) {
		*self.0.entry(k.to_string()).or_insert(0) += n;
	}
	pub fn max(&mut self, k: &str, n: u64) {
		let e = self.0.entry(k.to_string()).or_insert(0);
		if n > *e {
			*e = n;
		}
	}
	pub fn get(&self, k: &str) -> u64 {
		self.0.get(k).copied().unwrap_or(0)
	}
	pub fn merge(&mut self, o: &Stats) {
		for (k, v) in o.0.iter() {
			if k.starts_with("max_") {
				self.max(k, *v);
			} else {
				self.add(k, *v);
			}
		}
	}
}

/// A failed oracle inside one case: (oracle name, detail).
pub type Mismatch = (String, String);

pub fn mm(oracle: &str, detail: String) -> Mismatch {
	(oracle.to_string(), detail)
}
