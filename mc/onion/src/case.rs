//! Enumerated input space: `Spec` (what is enumerated) -> `Case` (the concrete route, recipient
//! fields, the sender-side expectations derived from the *route* by BOLT 4 semantics, and the
//! harness' own byte-size model that predicts whether the route fits in 1300 bytes).
use crate::world::*;
use bitcoin::secp256k1::{PublicKey, SecretKey};
use lightning::blinded_path::payment::{
	BlindedPaymentPath, Bolt12RefundContext, ForwardTlvs, PaymentConstraints, PaymentContext,
	PaymentForwardNode, PaymentRelay, ReceiveTlvs,
};
use lightning::ln::outbound_payment::{RecipientCustomTlvs, RecipientOnionFields};
use lightning::routing::router::{BlindedTail, Path, RouteHop};
use lightning::sign::NodeSigner;
use lightning::types::features::{BlindedHopFeatures, ChannelFeatures, NodeFeatures};
use lightning::types::payment::{PaymentHash, PaymentPreimage, PaymentSecret};
use mc_common::{json, Value};

pub const ONION_DATA_LEN: usize = 1300;
pub const PACKET_LEN: usize = 1 + 33 + ONION_DATA_LEN + 32;
pub const MAX_VALUE_MSAT: u64 = 21_000_000 * 100_000_000 * 1000;
pub const KEYSEND_TLV: u64 = 5482373484;
pub const BIG_CUSTOM_TLV: u64 = 0x1_0000_0001;

#[derive(Clone, Debug, PartialEq, Eq, PartialOrd, Ord)]
pub enum Fin {
	Secret,
	SecretMpp,
	Keysend,
	KeysendSecret,
	/// payment_metadata of exactly this length (+ secret)
	Meta(usize),
	/// payment_metadata of the largest length that fits, plus `extra` bytes (0 = fits to the byte,
	/// 1 = one byte too many)
	MetaMax(usize),
	/// custom TLV sets: 0 = one small, 1 = several incl. types around the keysend type, with keysend
	Custom(u8),
	/// one custom TLV with the largest value that fits, plus `extra`
	CustomMax(usize),
	/// no secret, no keysend (the smallest possible final payload)
	Bare,
}

impl Fin {
	pub fn name(&self) -> String {
		match self {
			Fin::Secret => "secret".into(),
			Fin::SecretMpp => "secret-mpp".into(),
			Fin::Keysend => "keysend".into(),
			Fin::KeysendSecret => "keysend-secret".into(),
			Fin::Meta(l) => format!("meta:{}", l),
			Fin::MetaMax(e) => format!("metamax:{}", e),
			Fin::Custom(v) => format!("custom:{}", v),
			Fin::CustomMax(e) => format!("custommax:{}", e),
			Fin::Bare => "bare".into(),
		}
	}
	pub fn family(&self) -> &'static str {
		match self {
			Fin::Secret => "secret",
			Fin::SecretMpp => "secret-mpp",
			Fin::Keysend => "keysend",
			Fin::KeysendSecret => "keysend-secret",
			Fin::Meta(_) => "metadata",
			Fin::MetaMax(0) => "metadata-max-fit",
			Fin::MetaMax(_) => "metadata-too-big",
			Fin::Custom(_) => "custom-tlvs",
			Fin::CustomMax(0) => "custom-max-fit",
			Fin::CustomMax(_) => "custom-too-big",
			Fin::Bare => "bare",
		}
	}
	pub fn parse(s: &str) -> Option<Fin> {
		let (a, b) = match s.split_once(':') {
			Some((a, b)) => (a, b.parse::<usize>().ok()),
			None => (s, None),
		};
		Some(match (a, b) {
			("secret", None) => Fin::Secret,
			("secret-mpp", None) => Fin::SecretMpp,
			("keysend", None) => Fin::Keysend,
			("keysend-secret", None) => Fin::KeysendSecret,
			("meta", Some(l)) => Fin::Meta(l),
			("metamax", Some(l)) => Fin::MetaMax(l),
			("custom", Some(l)) => Fin::Custom(l as u8),
			("custommax", Some(l)) => Fin::CustomMax(l),
			("bare", None) => Fin::Bare,
			_ => return None,
		})
	}
}

/// One point of the enumerated space.
#[derive(Clone, Debug, PartialEq, Eq, PartialOrd, Ord)]
pub struct Spec {
	/// number of unblinded hops (`Path::hops.len()`)
	pub n: usize,
	/// amount class 0..=3 (min, small, byte-length boundaries, near the 21M BTC cap)
	pub amt: u8,
	/// expiry class 0..=3 (all zero, normal, one-byte heights, near the 500M cap)
	pub cltv: u8,
	pub fin: Fin,
	/// number of blinded hops in the tail (0 = none; 1 = the last unblinded hop is the recipient)
	pub blinded: usize,
}

impl Spec {
	pub fn id(&self) -> String {
		format!("n={},amt={},cltv={},fin={},blinded={}", self.n, self.amt, self.cltv, self.fin.name(), self.blinded)
	}
	pub fn to_json(&self) -> Value {
		json!({"n": self.n, "amt": self.amt, "cltv": self.cltv, "fin": self.fin.name(), "blinded": self.blinded})
	}
	pub fn from_json(v: &Value) -> Option<Spec> {
		Some(Spec {
			n: v.get("n")?.as_u64()? as usize,
			amt: v.get("amt")?.as_u64()? as u8,
			cltv: v.get("cltv")?.as_u64()? as u8,
			fin: Fin::parse(v.get("fin")?.as_str()?)?,
			blinded: v.get("blinded")?.as_u64()? as usize,
		})
	}
	pub fn total_hops(&self) -> usize {
		if self.blinded == 0 {
			self.n
		} else {
			self.n + self.blinded - 1
		}
	}
}

#[derive(Clone, Debug, PartialEq, Eq)]
pub struct ExpFwd {
	pub scid: u64,
	pub amt: u64,
	pub cltv: u32,
	/// hop is inside the blinded tail (intro node included)
	pub blinded: bool,
}

#[derive(Clone, Debug, PartialEq, Eq)]
pub struct ExpFinal {
	pub amt: u64,
	pub cltv: u32,
	pub secret: Option<[u8; 32]>,
	pub total: u64,
	pub metadata: Option<Vec<u8>>,
	pub keysend: Option<[u8; 32]>,
	pub custom: Vec<(u64, Vec<u8>)>,
	pub blinded: bool,
}

pub struct Case {
	pub spec: Spec,
	pub path: Path,
	pub onion_fields: RecipientOnionFields,
	pub keysend: Option<PaymentPreimage>,
	pub payment_hash: PaymentHash,
	pub cur_height: u32,
	pub session_priv: SecretKey,
	pub prng_seed: [u8; 32],
	/// expectations for hops 0..H-1 (every forwarding hop, blinded ones included)
	pub exp_fwd: Vec<ExpFwd>,
	/// HTLC (amount, expiry) arriving at each of the H hops, as the route implies
	pub exp_in: Vec<(u64, u32)>,
	pub exp_final: ExpFinal,
	/// serialized payload length (without the 32-byte HMAC) of each hop by the harness' own model
	pub payload_lens: Vec<usize>,
	pub predicted_total: usize,
	/// the relay-policy checks of `peel_payment_onion` (expiry deltas >= 48 etc.) are satisfiable
	pub peel_admissible: bool,
	pub blinding_point: Option<PublicKey>,
}

impl Case {
	pub fn fits(&self) -> bool {
		self.predicted_total <= ONION_DATA_LEN
	}
	pub fn hops_total(&self) -> usize {
		self.spec.total_hops()
	}
}

// ---- the harness' own TLV size model (BOLT 1 BigSize, BOLT 4 tu64/tu32) ----
pub fn bigsize_len(v: u64) -> usize {
	if v < 0xfd {
		1
	} else if v <= 0xffff {
		3
	} else if v <= 0xffff_ffff {
		5
	} else {
		9
	}
}
pub fn trunc_len(v: u64) -> usize {
	8 - (v.leading_zeros() as usize) / 8
}
pub fn tlv_len(t: u64, vlen: usize) -> usize {
	bigsize_len(t) + bigsize_len(vlen as u64) + vlen
}
pub fn framed(body: usize) -> usize {
	bigsize_len(body as u64) + body
}

pub fn scid_for(i: usize) -> u64 {
	match i {
		1 => 0,
		2 => u64::MAX,
		_ => ((i as u64 + 1) << 40) | ((i as u64 * 7 + 3) << 16) | (i as u64),
	}
}

fn geom_table() -> Vec<u64> {
	let mut t = vec![
		255u64,
		256,
		65535,
		65536,
		(1 << 24) - 1,
		1 << 24,
		(1u64 << 32) - 1,
		1u64 << 32,
		(1u64 << 40) - 1,
		1u64 << 40,
		(1u64 << 48) - 1,
		1u64 << 48,
		(1u64 << 56) - 1,
		1u64 << 56,
	];
	for k in 1..=20u64 {
		t.push((1u64 << 56) + k * 80_000_000_000_000_000);
	}
	t
}

/// (per-hop forwarding fee for hops 0..H-1, final value)
fn amounts(class: u8, h: usize) -> (Vec<u64>, u64) {
	match class {
		0 => (vec![0; h - 1], 1),
		1 => ((0..h - 1).map(|i| i as u64 + 1).collect(), 1000),
		2 => {
			let t = geom_table();
			let mut fees = vec![0u64; h - 1];
			for i in 0..h - 1 {
				let d = h - 1 - i; // distance from the final hop, >= 1
				fees[i] = t[d] - t[d - 1];
			}
			(fees, t[0])
		},
		_ => (vec![1; h - 1], MAX_VALUE_MSAT - 1000),
	}
}

/// (current height handed to the sender, expiry delta of each of the H hops)
fn expiries(class: u8, h: usize) -> (u32, Vec<u32>) {
	let normal: Vec<u32> = (0..h).map(|i| 48 + ((i as u32 * 5) % 25)).collect();
	match class {
		0 => (0, vec![0; h]),
		1 => (800_000, normal),
		2 => (1, vec![48; h]),
		_ => (499_990_000, normal),
	}
}

fn custom_set(variant: u8) -> Vec<(u64, Vec<u8>)> {
	match variant {
		0 => vec![(65537, vec![1, 2, 3])],
		_ => vec![
			(65536, vec![]),
			(65537, vec![0xab]),
			(KEYSEND_TLV - 1, vec![7; 2]),
			(KEYSEND_TLV + 1, vec![8; 40]),
			(u64::MAX, vec![9; 3]),
		],
	}
}

pub fn build_case(w: &World, spec: &Spec) -> Option<Case> {
	let n = spec.n;
	let b = spec.blinded;
	let h = spec.total_hops();
	if n == 0 || h > MAX_NODES - 1 {
		return None;
	}
	let tag = mc_common::digest128(spec.id().as_bytes()).to_be_bytes();
	let (fee, value) = amounts(spec.amt, h);
	let (cur, delta) = expiries(spec.cltv, h);
	let excess: u32 = if b > 0 { 7 } else { 0 };

	// incoming HTLC at each hop, as the route implies
	let mut exp_in = vec![(0u64, 0u32); h];
	{
		let mut a = value;
		let mut c = cur + excess + delta[h - 1];
		exp_in[h - 1] = (a, c);
		for i in (0..h - 1).rev() {
			a += fee[i];
			c += delta[i];
			exp_in[i] = (a, c);
		}
	}

	// recipient fields
	let secret = PaymentSecret(sha(&[b"secret", &tag]));
	let preimage = PaymentPreimage(sha(&[b"preimage", &tag]));
	let mut total = value;
	let mut use_secret = true;
	let mut keysend = None;
	let mut metadata: Option<Vec<u8>> = None;
	let mut custom: Vec<(u64, Vec<u8>)> = Vec::new();
	match &spec.fin {
		Fin::Secret => {},
		Fin::SecretMpp => total = value.saturating_mul(3).min(MAX_VALUE_MSAT),
		Fin::Keysend => {
			use_secret = false;
			keysend = Some(preimage);
		},
		Fin::KeysendSecret => keysend = Some(preimage),
		Fin::Meta(l) => metadata = Some((0..*l).map(|i| (i % 251) as u8).collect()),
		Fin::MetaMax(_) => metadata = Some(Vec::new()),
		Fin::Custom(v) => {
			custom = custom_set(*v);
			if *v > 0 {
				keysend = Some(preimage);
			}
		},
		Fin::CustomMax(_) => custom = vec![(BIG_CUSTOM_TLV, Vec::new())],
		Fin::Bare => use_secret = false,
	}
	if b > 0 {
		// the secret of a blinded payment lives in the recipient's encrypted TLVs
		use_secret = false;
		if metadata.is_some() {
			return None;
		}
	}

	// route
	let mut hops = Vec::with_capacity(n);
	for i in 0..n {
		let is_last = i == n - 1;
		let (f, d) = if !is_last {
			(fee[i], delta[i])
		} else if b == 0 {
			(value, delta[i])
		} else {
			(fee[n - 1..].iter().sum::<u64>(), delta[n - 1..].iter().sum::<u32>() + excess)
		};
		hops.push(RouteHop {
			pubkey: w.ids[i],
			node_features: NodeFeatures::empty(),
			short_channel_id: scid_for(i),
			channel_features: ChannelFeatures::empty(),
			fee_msat: f,
			cltv_expiry_delta: d,
			maybe_announced_channel: i % 2 == 0,
		});
	}

	// blinded tail
	let mut blinded_tail = None;
	let mut blinding_point = None;
	let mut enc_lens: Vec<usize> = Vec::new();
	if b > 0 {
		let mut nodes = Vec::new();
		for i in n - 1..h - 1 {
			if fee[i] > u32::MAX as u64 || delta[i] > u16::MAX as u32 {
				return None;
			}
			nodes.push(PaymentForwardNode {
				tlvs: ForwardTlvs {
					short_channel_id: scid_for(i + 1),
					payment_relay: PaymentRelay {
						cltv_expiry_delta: delta[i] as u16,
						fee_proportional_millionths: 0,
						fee_base_msat: fee[i] as u32,
					},
					payment_constraints: PaymentConstraints { max_cltv_expiry: cur.saturating_add(100_000), htlc_minimum_msat: 1 },
					features: BlindedHopFeatures::empty(),
					next_blinding_override: None,
				},
				node_id: w.ids[i],
				htlc_maximum_msat: MAX_VALUE_MSAT,
			});
		}
		let payee = h - 1;
		let tlvs = ReceiveTlvs {
			payment_secret: secret,
			payment_constraints: PaymentConstraints { max_cltv_expiry: cur.saturating_add(100_000), htlc_minimum_msat: 1 },
			payment_context: PaymentContext::Bolt12Refund(Bolt12RefundContext { payment_metadata: None }),
		};
		let bp = BlindedPaymentPath::new(
			&nodes,
			w.ids[payee],
			w.signers[payee].get_receive_auth_key(),
			tlvs,
			MAX_VALUE_MSAT,
			delta[h - 1] as u16,
			FixedEntropy(sha(&[b"blinding", &tag])),
			&w.secp,
		)
		.ok()?;
		enc_lens = bp.blinded_hops().iter().map(|bh| bh.encrypted_payload.len()).collect();
		blinding_point = Some(bp.blinding_point());
		blinded_tail = Some(BlindedTail {
			trampoline_hops: Vec::new(),
			hops: bp.blinded_hops().to_vec(),
			blinding_point: bp.blinding_point(),
			excess_final_cltv_expiry_delta: excess,
			final_value_msat: value,
		});
	}

	// expectations per forwarding hop
	let mut exp_fwd = Vec::new();
	for i in 0..h - 1 {
		exp_fwd.push(ExpFwd { scid: scid_for(i + 1), amt: exp_in[i + 1].0, cltv: exp_in[i + 1].1, blinded: b > 0 && i >= n - 1 });
	}

	// own size model
	let final_amt = value;
	let final_cltv = cur + excess + if b == 0 { delta[h - 1] } else { 0 };
	let mut payload_lens = Vec::with_capacity(h);
	for i in 0..h - 1 {
		if b > 0 && i >= n - 1 {
			let j = i - (n - 1);
			let body = tlv_len(10, enc_lens[j]) + if j == 0 { tlv_len(12, 33) } else { 0 };
			payload_lens.push(framed(body));
		} else {
			let e = &exp_fwd[i];
			let body = tlv_len(2, trunc_len(e.amt)) + tlv_len(4, trunc_len(e.cltv as u64)) + tlv_len(6, 8);
			payload_lens.push(framed(body));
		}
	}
	let fixed_final_body = |meta_len: Option<usize>, custom: &Vec<(u64, Vec<u8>)>| -> usize {
		let mut body = tlv_len(2, trunc_len(final_amt)) + tlv_len(4, trunc_len(final_cltv as u64));
		if b > 0 {
			body += tlv_len(10, enc_lens[b - 1]);
			if b == 1 {
				body += tlv_len(12, 33);
			}
			body += tlv_len(18, trunc_len(total));
		} else {
			if use_secret {
				body += tlv_len(8, 32 + trunc_len(total));
			}
			if let Some(l) = meta_len {
				body += tlv_len(16, l);
			}
		}
		for (t, v) in custom.iter() {
			body += tlv_len(*t, v.len());
		}
		if keysend.is_some() {
			body += tlv_len(KEYSEND_TLV, 32);
		}
		body
	};
	let before: usize = payload_lens.iter().map(|l| l + 32).sum();
	let total_with = |final_body: usize| before + framed(final_body) + 32;
	match &spec.fin {
		Fin::MetaMax(extra) => {
			let mut best = None;
			for l in 0..=ONION_DATA_LEN {
				if total_with(fixed_final_body(Some(l), &custom)) <= ONION_DATA_LEN {
					best = Some(l);
				} else {
					break;
				}
			}
			let l = best? + extra;
			metadata = Some((0..l).map(|i| (i % 253) as u8).collect());
		},
		Fin::CustomMax(extra) => {
			let mut best = None;
			for l in 0..=ONION_DATA_LEN {
				let c = vec![(BIG_CUSTOM_TLV, vec![0u8; l])];
				if total_with(fixed_final_body(None, &c)) <= ONION_DATA_LEN {
					best = Some(l);
				} else {
					break;
				}
			}
			let l = best? + extra;
			custom = vec![(BIG_CUSTOM_TLV, (0..l).map(|i| (i % 249) as u8).collect())];
		},
		_ => {},
	}
	let final_body = fixed_final_body(metadata.as_ref().map(|m| m.len()), &custom);
	payload_lens.push(framed(final_body));
	let predicted_total: usize = payload_lens.iter().map(|l| l + 32).sum();

	let mut onion_fields = if use_secret {
		RecipientOnionFields::secret_only(secret, total)
	} else {
		RecipientOnionFields::spontaneous_empty(total)
	};
	onion_fields.payment_metadata = metadata.clone();
	if !custom.is_empty() {
		onion_fields = onion_fields.with_custom_tlvs(RecipientCustomTlvs::new(custom.clone()).ok()?);
	}
	let mut custom_sorted = custom.clone();
	custom_sorted.sort_by_key(|(t, _)| *t);

	let payment_hash = match keysend {
		Some(p) => PaymentHash(sha(&[&p.0[..]])),
		None => PaymentHash(sha(&[b"payment-hash", &tag])),
	};
	let exp_final = ExpFinal {
		amt: final_amt,
		cltv: final_cltv,
		secret: if use_secret || b > 0 { Some(secret.0) } else { None },
		total,
		metadata,
		keysend: keysend.map(|p| p.0),
		custom: custom_sorted,
		blinded: b > 0,
	};
	let peel_admissible = spec.cltv != 0 && spec.fin != Fin::Bare;
	Some(Case {
		spec: spec.clone(),
		path: Path { hops, blinded_tail },
		onion_fields,
		keysend,
		payment_hash,
		cur_height: cur,
		session_priv: secret_from(b"session", u64::from_be_bytes(tag[..8].try_into().unwrap())),
		prng_seed: sha(&[b"prng", &tag]),
		exp_fwd,
		exp_in,
		exp_final,
		payload_lens,
		predicted_total,
		peel_admissible,
		blinding_point,
	})
}
